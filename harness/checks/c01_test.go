package checks

// C01 — document mirror fidelity under any edit history.
// Oracle: refclient.Buffer (UTF-16 reference client buffer, DESIGN.md 3.1) and,
// for the second clause, a fresh server opened on the reference text.

import (
	"context"
	"encoding/json"
	"fmt"
	"reflect"
	"runtime"
	"strings"
	"sync"
	"testing"

	"go.lsp.dev/protocol"
	"pgregory.net/rapid"

	"github.com/juev/hledger-lsp/internal/verifhook"
	"github.com/juev/hledger-lsp/verifharness/ev"
	"github.com/juev/hledger-lsp/verifharness/lspx"
	"github.com/juev/hledger-lsp/verifharness/refclient"
)

type C01Op struct {
	Op      string             `json:"op"` // open | change | close
	Doc     int                `json:"doc"`
	Text    string             `json:"text,omitempty"`
	Changes []refclient.Change `json:"changes,omitempty"`
	Probe   *C01Probe          `json:"probe,omitempty"`
}

type C01Probe struct {
	Kind string        `json:"kind"`
	Pos  refclient.Pos `json:"pos"`
	// Late (change with >= 2 content changes): the changes arrive as two notifications; the analysis
	// started by the first is held until that of the second has finished, then runs, then the probe is made
	Late bool `json:"late,omitempty"`
}

type C01Case struct {
	Ops []C01Op `json:"ops"`
}

var c01URIs = []string{"file:///c01/a.journal", "file:///c01/b.journal", "file:///c01/dir/c.journal"}

// ---- hold background analysis at diag.start (hooks) ----

type holdGate struct {
	mu      sync.Mutex
	holding bool
	one     bool // hold only the first analysis that arrives
	waiters []chan struct{}
	seen    int
}

var gate = &holdGate{}

func (g *holdGate) handler(name string, args ...string) {
	if name != "diag.start" {
		return
	}
	g.mu.Lock()
	g.seen++
	if !g.holding {
		g.mu.Unlock()
		return
	}
	if g.one {
		g.holding = false
	}
	ch := make(chan struct{})
	g.waiters = append(g.waiters, ch)
	g.mu.Unlock()
	<-ch
}

func (g *holdGate) hold() {
	g.mu.Lock()
	g.holding, g.one = true, false
	g.mu.Unlock()
}

func (g *holdGate) holdOne() {
	g.mu.Lock()
	g.holding, g.one = true, true
	g.mu.Unlock()
}

func (g *holdGate) nHeld() int {
	g.mu.Lock()
	defer g.mu.Unlock()
	return len(g.waiters)
}

func (g *holdGate) release() {
	g.mu.Lock()
	g.holding = false
	ws := g.waiters
	g.waiters = nil
	g.mu.Unlock()
	for _, w := range ws {
		close(w)
	}
}

func installGate() { verifhook.SetHandler(gate.handler) }

// ---- request battery (shared with other checks) ----

func toProtoPos(p refclient.Pos) protocol.Position {
	return protocol.Position{Line: uint32(p.Line), Character: uint32(p.Char)}
}

func tdpp(uri string, p refclient.Pos) protocol.TextDocumentPositionParams {
	return protocol.TextDocumentPositionParams{TextDocument: protocol.TextDocumentIdentifier{URI: protocol.DocumentURI(uri)}, Position: toProtoPos(p)}
}

// ask issues one request and returns its canonical JSON ("" for nil results).
func ask(h *lspx.Harness, kind, uri string, p refclient.Pos) (out string, err error) {
	ctx := context.Background()
	var v any
	perr := lspx.Guard(func() {
		switch kind {
		case "completion":
			v, err = h.S.Completion(ctx, &protocol.CompletionParams{TextDocumentPositionParams: tdpp(uri, p)})
		case "hover":
			v, err = h.S.Hover(ctx, &protocol.HoverParams{TextDocumentPositionParams: tdpp(uri, p)})
		case "definition":
			v, err = h.S.Definition(ctx, &protocol.DefinitionParams{TextDocumentPositionParams: tdpp(uri, p)})
		case "references":
			v, err = h.S.References(ctx, &protocol.ReferenceParams{TextDocumentPositionParams: tdpp(uri, p), Context: protocol.ReferenceContext{IncludeDeclaration: true}})
		case "documentSymbol":
			v, err = h.S.DocumentSymbol(ctx, &protocol.DocumentSymbolParams{TextDocument: protocol.TextDocumentIdentifier{URI: protocol.DocumentURI(uri)}})
		case "folding":
			v, err = h.S.FoldingRanges(ctx, &protocol.FoldingRangeParams{TextDocumentPositionParams: tdpp(uri, refclient.Pos{})})
		case "formatting":
			v, err = h.S.Format(ctx, &protocol.DocumentFormattingParams{TextDocument: protocol.TextDocumentIdentifier{URI: protocol.DocumentURI(uri)}})
		case "links":
			v, err = h.S.DocumentLink(ctx, &protocol.DocumentLinkParams{TextDocument: protocol.TextDocumentIdentifier{URI: protocol.DocumentURI(uri)}})
		case "semanticRange":
			v, err = h.S.SemanticTokensRange(ctx, &protocol.SemanticTokensRangeParams{TextDocument: protocol.TextDocumentIdentifier{URI: protocol.DocumentURI(uri)},
				Range: protocol.Range{Start: protocol.Position{}, End: protocol.Position{Line: 1 << 20}}})
		case "prepareRename":
			v, err = h.S.PrepareRename(ctx, &protocol.PrepareRenameParams{TextDocumentPositionParams: tdpp(uri, p)})
		default:
			err = fmt.Errorf("unknown request kind %q", kind)
		}
	})
	if perr != nil {
		return "", perr
	}
	if err != nil {
		return "error: " + err.Error(), nil
	}
	if v == nil || (reflect.ValueOf(v).Kind() == reflect.Ptr && reflect.ValueOf(v).IsNil()) {
		return "", nil
	}
	b, jerr := json.Marshal(v)
	if jerr != nil {
		return "", jerr
	}
	return string(b), nil
}

// askExtra covers the requests whose parameters are not a plain document position.
func askExtra(h *lspx.Harness, kind, uri string, p refclient.Pos) (out string, err error) {
	ctx := context.Background()
	var v any
	perr := lspx.Guard(func() {
		switch kind {
		case "workspaceSymbol":
			v, err = h.S.WorkspaceSymbol(ctx, &protocol.WorkspaceSymbolParams{Query: ""})
		case "inlineCompletion":
			raw, _ := json.Marshal(map[string]any{"textDocument": map[string]any{"uri": uri}, "position": map[string]any{"line": p.Line, "character": p.Char}, "context": map[string]any{"triggerKind": 1}})
			v, err = h.S.InlineCompletion(ctx, raw)
		case "rename":
			v, err = h.S.Rename(ctx, &protocol.RenameParams{TextDocumentPositionParams: tdpp(uri, p), NewName: "renamed:x"})
		default:
			err = fmt.Errorf("unknown request kind %q", kind)
		}
	})
	if perr != nil {
		return "", perr
	}
	if err != nil {
		return "error: " + err.Error(), nil
	}
	if v == nil || (reflect.ValueOf(v).Kind() == reflect.Ptr && reflect.ValueOf(v).IsNil()) {
		return "", nil
	}
	b, jerr := json.Marshal(v)
	if jerr != nil {
		return "", jerr
	}
	return string(b), nil
}

var c01ProbeKinds = []string{"completion", "hover", "documentSymbol", "semanticRange", "folding", "references", "definition", "formatting", "inlineCompletion", "inlineCompletion", "links", "prepareRename"}

func c01Check(c *C01Case) (ds []ev.Discrepancy, classes []string) {
	installGate()
	cls := map[string]bool{}
	h, err := lspx.New(lspx.Options{})
	if err != nil {
		return []ev.Discrepancy{ev.D("c01.harness", "%v", err)}, nil
	}
	bufs := map[int]*refclient.Buffer{}
	everOpened := map[int]bool{}
	// a client numbers the versions of a document from 1 with every didOpen: the numbers of a second
	// session are lower than the last ones of the first
	versions := map[int]int{}
	for si, op := range c.Ops {
		uri := c01URIs[op.Doc]
		version := versions[op.Doc]
		late := op.Probe != nil && op.Probe.Late && op.Op == "change" && len(op.Changes) >= 2
		if op.Probe != nil && !late {
			gate.hold()
		}
		var nerr error
		perr := lspx.Guard(func() {
			switch op.Op {
			case "open":
				nerr = h.Open(uri, op.Text)
				version = 1
				bufs[op.Doc] = refclient.New(op.Text)
				if everOpened[op.Doc] {
					cls["reopen"] = true
				}
				everOpened[op.Doc] = true
			case "change":
				version++
				if late {
					// two notifications; the analysis of the first is overtaken by that of the second
					cls["late-superseded-analysis"] = true
					gate.holdOne()
					nerr = h.Change(uri, version, op.Changes[:1])
					for i := 0; gate.nHeld() < 1 && i < 200000; i++ {
						runtime.Gosched()
					}
					version++
					if nerr == nil {
						nerr = h.Change(uri, version, op.Changes[1:])
					}
					for i := 0; h.BusyBeyond(gate.nHeld()) > 0 && i < 2000000; i++ {
						runtime.Gosched()
					}
					gate.release()
					_ = h.Quiesce()
				} else {
					nerr = h.Change(uri, version, op.Changes)
				}
				if b, ok := bufs[op.Doc]; ok {
					nonASCII := strings.ContainsFunc(b.String(), func(r rune) bool { return r > 127 || r == '\r' })
					for _, ch := range op.Changes {
						if ch.Range != nil && nonASCII {
							cls["ranged-on-nonascii-or-crlf"] = true
						}
						if ch.Range == nil {
							cls["full-change"] = true
						}
					}
					if len(op.Changes) >= 2 {
						cls["multi-change"] = true
					}
					b.Apply(op.Changes)
				}
			case "close":
				nerr = h.Close(uri)
				delete(bufs, op.Doc)
			}
		})
		versions[op.Doc] = version
		if perr != nil || nerr != nil {
			gate.release()
			_ = h.Quiesce()
			return append(ds, ev.D("c01.notification.total", "step %d (%s): %v %v", si, op.Op, perr, nerr)), keys(cls)
		}
		// first clause: the mirror
		for d := range c01URIs {
			got, ok := h.S.GetDocument(protocol.DocumentURI(c01URIs[d]))
			b, open := bufs[d]
			if open != ok {
				ds = append(ds, ev.D("c01.mirror.presence", "step %d (%s doc %d): document %d open on client=%v, held by server=%v", si, op.Op, op.Doc, d, open, ok))
			} else if open && got != b.String() {
				ds = append(ds, ev.D("c01.mirror.text", "step %d (%s doc %d): server holds %q, a conforming client holds %q", si, op.Op, op.Doc, got, b.String()))
			}
		}
		// second clause: an answer right after the notification equals a fresh server's
		if op.Probe != nil && len(ds) == 0 {
			if b, ok := bufs[op.Doc]; ok {
				cls["probe:"+op.Probe.Kind] = true
				got, aerr := ask2(h, op.Probe.Kind, uri, op.Probe.Pos)
				gate.release()
				if qerr := h.Quiesce(); qerr != nil {
					return append(ds, ev.D("c01.harness", "%v", qerr)), keys(cls)
				}
				fresh, ferr := lspx.New(lspx.Options{})
				if ferr != nil {
					return append(ds, ev.D("c01.harness", "%v", ferr)), keys(cls)
				}
				if _, e := fresh.OpenAndWait(uri, b.String()); e != nil {
					return append(ds, ev.D("c01.harness", "%v", e)), keys(cls)
				}
				want, werr := ask2(fresh, op.Probe.Kind, uri, op.Probe.Pos)
				if aerr != nil || werr != nil {
					ds = append(ds, ev.D("c01.answer.total", "step %d: %s at %v failed: %v / %v", si, op.Probe.Kind, op.Probe.Pos, aerr, werr))
				} else if got != want {
					ds = append(ds, ev.D("c01.answer.stale", "step %d: %s at %d:%d right after %s answers %.300s; a fresh server on the current text %q answers %.300s",
						si, op.Probe.Kind, op.Probe.Pos.Line, op.Probe.Pos.Char, op.Op, got, b.String(), want))
				}
			}
		}
		gate.release()
		if len(ds) > 0 {
			break
		}
	}
	gate.release()
	_ = h.Quiesce()
	return ds, keys(cls)
}

// ---- generators ----

var c01Atoms = []string{"a", "b", "Z", "0", "9", " ", "  ", "\t", ":", ";", "$", "-", ".", ",", "é", "Ж", "中", "😀", "𝄞", "expenses:food", "assets:cash", "2024-01-15", "* ", "shop", "10.50", "EUR", "€"}

func genPlainDoc(t *rapid.T) string {
	nl := rapid.SampledFrom([]string{"\n", "\n", "\r\n"}).Draw(t, "nl")
	n := rapid.IntRange(0, 8).Draw(t, "nlines")
	var lines []string
	for i := 0; i < n; i++ {
		k := rapid.IntRange(0, 8).Draw(t, "natoms")
		var sb strings.Builder
		for j := 0; j < k; j++ {
			sb.WriteString(rapid.SampledFrom(c01Atoms).Draw(t, "atom"))
		}
		lines = append(lines, sb.String())
	}
	s := strings.Join(lines, nl)
	if n > 0 && rapid.Bool().Draw(t, "finalnl") {
		s += nl
	}
	return s
}

var c01Journal = []string{
	"2024-01-15 * shop\n    expenses:food  10.50 EUR\n    assets:cash\n\n2024-02-01 shop\n\n",
	"2024-01-15 shop\n    expenses:rent  700 EUR\n    assets:bank\n\n2024-02-01 shop\n\n",
	"2024-01-15 market\n    expenses:food  3 USD\n    assets:cash\n\n2024-02-01 shop\n\n2024-03-01 market\n\n",
	"2024-01-15 * shop\n    expenses:food  10.50 EUR\n    assets:cash\n",
	"2024-01-15 shop | note\n    expenses:food  $5\n    assets:cash  $-5\n\n2024-02-01 café 😀\n    expenses:misc  1 EUR\n    assets:cash\n",
	"account expenses:food\naccount assets:cash\n\n2024-03-01 x\n    expenses:food  3 USD\n    assets:cash\n",
}

func genC01Doc(t *rapid.T) string {
	if rapid.IntRange(0, 3).Draw(t, "journal") == 0 {
		s := rapid.SampledFrom(c01Journal).Draw(t, "jtext")
		if rapid.Bool().Draw(t, "crlf") {
			s = strings.ReplaceAll(s, "\n", "\r\n")
		}
		return s
	}
	return genPlainDoc(t)
}

// genPos draws a position against a concrete buffer; never between surrogates.
func genPos(t *rapid.T, b *refclient.Buffer, label string) refclient.Pos {
	lc := b.LineCount()
	line := rapid.IntRange(0, lc+1).Draw(t, label+".line")
	if rapid.IntRange(0, 3).Draw(t, label+".inside") != 0 && lc > 0 {
		line = rapid.IntRange(0, lc-1).Draw(t, label+".line2")
	}
	ll := b.LineLen(line)
	var ch int
	switch rapid.IntRange(0, 5).Draw(t, label+".chk") {
	case 0:
		ch = 0
	case 1:
		ch = ll
	case 2:
		ch = ll + rapid.IntRange(1, 50).Draw(t, label+".beyond")
	default:
		ch = rapid.IntRange(0, ll).Draw(t, label+".ch")
	}
	if line < lc && ch > 0 && ch < ll {
		u := []uint16(nil)
		_ = u
		// step off a low surrogate
		lineText := b.Line(line)
		units := refclient.New(lineText).Units()
		if units[ch] >= 0xDC00 && units[ch] < 0xE000 {
			ch++
		}
	}
	return refclient.Pos{Line: line, Char: ch}
}

func genInsertText(t *rapid.T) string {
	k := rapid.IntRange(0, 4).Draw(t, "nins")
	var sb strings.Builder
	for j := 0; j < k; j++ {
		sb.WriteString(rapid.SampledFrom(append([]string{"\n", "\r\n", "\n"}, c01Atoms...)).Draw(t, "ins"))
	}
	return sb.String()
}

func genChanges(t *rapid.T, b *refclient.Buffer) []refclient.Change {
	n := rapid.SampledFrom([]int{1, 1, 1, 2, 3, 4}).Draw(t, "nchanges")
	work := b.Clone()
	var out []refclient.Change
	for i := 0; i < n; i++ {
		var ch refclient.Change
		if rapid.IntRange(0, 5).Draw(t, "full") == 0 {
			ch = refclient.Change{Text: genC01Doc(t)}
		} else {
			s := genPos(t, work, "start")
			var e refclient.Pos
			switch rapid.IntRange(0, 3).Draw(t, "rkind") {
			case 0:
				e = s // empty range: insertion
			case 1:
				e = refclient.Pos{Line: s.Line, Char: s.Char + rapid.IntRange(0, 6).Draw(t, "len")}
				// keep off a surrogate middle
				if e.Line < work.LineCount() && e.Char < work.LineLen(e.Line) && e.Char > 0 {
					units := refclient.New(work.Line(e.Line)).Units()
					if units[e.Char] >= 0xDC00 && units[e.Char] < 0xE000 {
						e.Char++
					}
				}
			default:
				e = genPos(t, work, "end")
				if e.Line < s.Line || (e.Line == s.Line && e.Char < s.Char) {
					s, e = e, s
				}
			}
			if s.Line == 0 && s.Char == 0 && e.Line == 0 && e.Char == 0 {
				if disabled("edit.range-0:0") {
					recC01.Excluded("edit.range-0:0")
					if work.LineLen(0) > 0 || work.LineCount() > 1 {
						// make it a different, still valid, edit
						e = refclient.Pos{Line: 0, Char: 1}
						if work.LineLen(0) == 0 {
							e = refclient.Pos{Line: 1, Char: 0}
						} else {
							units := refclient.New(work.Line(0)).Units()
							if len(units) > 1 && units[1] >= 0xDC00 && units[1] < 0xE000 {
								e.Char = 2
							}
						}
					} else {
						// empty document: only a range-less change can be expressed
						ch = refclient.Change{Text: genInsertText(t)}
						work.Apply([]refclient.Change{ch})
						out = append(out, ch)
						continue
					}
				}
			}
			ch = refclient.Change{Range: &refclient.Range{Start: s, End: e}, Text: genInsertText(t)}
		}
		work.Apply([]refclient.Change{ch})
		out = append(out, ch)
	}
	return out
}

func genC01(t *rapid.T) *C01Case {
	c := &C01Case{}
	ndocs := rapid.IntRange(1, 3).Draw(t, "ndocs")
	bufs := map[int]*refclient.Buffer{}
	steps := rapid.IntRange(2, 12).Draw(t, "steps")
	for s := 0; s < steps; s++ {
		d := rapid.IntRange(0, ndocs-1).Draw(t, "doc")
		b, open := bufs[d]
		var op C01Op
		if !open {
			txt := genC01Doc(t)
			op = C01Op{Op: "open", Doc: d, Text: txt}
			bufs[d] = refclient.New(txt)
		} else if rapid.IntRange(0, 7).Draw(t, "close") == 0 {
			op = C01Op{Op: "close", Doc: d}
			delete(bufs, d)
		} else {
			chs := genChanges(t, b)
			op = C01Op{Op: "change", Doc: d, Changes: chs}
			b.Apply(chs)
		}
		if nb, ok := bufs[d]; ok && rapid.IntRange(0, 2).Draw(t, "probe") == 0 {
			op.Probe = &C01Probe{Kind: rapid.SampledFrom(c01ProbeKinds).Draw(t, "pkind"), Pos: genPos(t, nb, "probe")}
			if op.Op == "change" && len(op.Changes) >= 2 {
				op.Probe.Late = rapid.Bool().Draw(t, "late")
			}
			if op.Probe.Kind == "inlineCompletion" {
				// ghost-text templates are offered on a blank line right after a transaction header
				var cands []int
				for li := 1; li < nb.LineCount(); li++ {
					prev := nb.Line(li - 1)
					if strings.TrimSpace(nb.Line(li)) == "" && len(prev) > 0 && prev[0] >= '0' && prev[0] <= '9' {
						cands = append(cands, li)
					}
				}
				if len(cands) > 0 {
					op.Probe.Pos = refclient.Pos{Line: rapid.SampledFrom(cands).Draw(t, "blank"), Char: 0}
				}
			}
		}
		c.Ops = append(c.Ops, op)
	}
	return c
}

var recC01 = ev.New("C01")

func c01Nontrivial(cls []string) bool {
	for _, k := range cls {
		if k == "ranged-on-nonascii-or-crlf" || k == "multi-change" || k == "reopen" {
			return true
		}
	}
	return false
}

func TestC01(t *testing.T) {
	defer recC01.Flush()
	rapid.Check(t, func(t *rapid.T) {
		c := genC01(t)
		ds, cls := c01Check(c)
		nt := c01Nontrivial(cls)
		recC01.Case(nt, mustJSON(c), cls...)
		if nt && recC01.WantSample() {
			recC01.Sample(c)
		}
		report(t, recC01, "c01", c, ds)
	})
}

func init() {
	replayers["c01"] = func(raw json.RawMessage) ([]ev.Discrepancy, error) {
		var c C01Case
		if err := json.Unmarshal(raw, &c); err != nil {
			return nil, err
		}
		ds, _ := c01Check(&c)
		return ds, nil
	}
}
