package checks

// C01, wire tier — the same edit histories sent over stdio to the real server
// binary (cmd/hledger-lsp, decoding and dispatch included) and, in step, to an
// in-process server: every probed answer and, at the end, the structure of every
// open document must agree. This is the only place where the dispatcher layer
// (what decides that a content change has no range) is exercised.

import (
	"encoding/json"
	"fmt"
	"os"
	"path/filepath"
	"reflect"
	"testing"

	"pgregory.net/rapid"

	"github.com/juev/hledger-lsp/verifharness/ev"
	"github.com/juev/hledger-lsp/verifharness/lspx"
	"github.com/juev/hledger-lsp/verifharness/refclient"
	"github.com/juev/hledger-lsp/verifharness/wire"
)

func wireParams(kind, uri string, p refclient.Pos) (string, any) {
	td := map[string]any{"uri": uri}
	pos := map[string]any{"line": p.Line, "character": p.Char}
	switch kind {
	case "completion":
		return "textDocument/completion", map[string]any{"textDocument": td, "position": pos}
	case "hover":
		return "textDocument/hover", map[string]any{"textDocument": td, "position": pos}
	case "definition":
		return "textDocument/definition", map[string]any{"textDocument": td, "position": pos}
	case "references":
		return "textDocument/references", map[string]any{"textDocument": td, "position": pos, "context": map[string]any{"includeDeclaration": true}}
	case "documentSymbol":
		return "textDocument/documentSymbol", map[string]any{"textDocument": td}
	case "folding":
		return "textDocument/foldingRange", map[string]any{"textDocument": td}
	case "formatting":
		return "textDocument/formatting", map[string]any{"textDocument": td, "options": map[string]any{"tabSize": 4, "insertSpaces": true}}
	case "links":
		return "textDocument/documentLink", map[string]any{"textDocument": td}
	case "semanticRange":
		return "textDocument/semanticTokens/range", map[string]any{"textDocument": td,
			"range": map[string]any{"start": map[string]any{"line": 0, "character": 0}, "end": map[string]any{"line": 1 << 20, "character": 0}}}
	case "prepareRename":
		return "textDocument/prepareRename", map[string]any{"textDocument": td, "position": pos}
	case "inlineCompletion":
		return "textDocument/inlineCompletion", map[string]any{"textDocument": td, "position": pos, "context": map[string]any{"triggerKind": 1}}
	}
	return "", nil
}

// canonJSON decodes an answer so that spelling differences between JSON encoders do not matter.
func canonJSON(s string) any {
	if s == "" || s == "null" {
		return nil
	}
	var v any
	if err := json.Unmarshal([]byte(s), &v); err != nil {
		return "undecodable: " + s
	}
	return v
}

var c01WireSeq int

func c01WireCheck(c *C01Case) (ds []ev.Discrepancy, probes int) {
	bin := os.Getenv("VERIF_SERVER_BIN")
	if bin == "" {
		return []ev.Discrepancy{ev.D("c01.harness", "VERIF_SERVER_BIN is not set: the driver builds cmd/hledger-lsp for this check")}, 0
	}
	c01WireSeq++
	home := filepath.Join(scratch(), fmt.Sprintf("c01wire-%d", c01WireSeq))
	_ = os.MkdirAll(home, 0o755)
	defer os.RemoveAll(home)
	w, err := wire.Start(bin, home)
	if err != nil {
		return []ev.Discrepancy{ev.D("c01.harness", "start %s: %v", bin, err)}, 0
	}
	defer w.Close()
	if err := w.Initialize(); err != nil {
		return []ev.Discrepancy{ev.D("c01.wire.initialize", "%v", err)}, 0
	}
	h, err := lspx.New(lspx.Options{})
	if err != nil {
		return []ev.Discrepancy{ev.D("c01.harness", "%v", err)}, 0
	}
	defer func() { _ = h.Quiesce() }()
	compare := func(step int, what, kind, uri string, p refclient.Pos) {
		method, params := wireParams(kind, uri, p)
		raw, werr := w.Call(method, params)
		got, aerr := ask2(h, kind, uri, p)
		probes++
		if aerr != nil {
			ds = append(ds, ev.D("c01.harness", "step %d: in-process %s: %v", step, kind, aerr))
			return
		}
		if werr != nil {
			if len(got) < 6 || got[:6] != "error:" {
				ds = append(ds, ev.D("c01.wire.error", "step %d (%s): %s at %d:%d fails over the wire (%v); in-process it answers %.300s", step, what, kind, p.Line, p.Char, werr, got))
			}
			return
		}
		if !reflect.DeepEqual(canonJSON(string(raw)), canonJSON(got)) {
			ds = append(ds, ev.D("c01.wire.differs", "step %d (%s): %s at %d:%d answered over the wire %.400s; the same history in-process gives %.400s", step, what, kind, p.Line, p.Char, raw, got))
		}
	}
	open := map[int]bool{}
	version := 1
	for si, op := range c.Ops {
		uri := c01URIs[op.Doc]
		switch op.Op {
		case "open":
			_ = w.Notify("textDocument/didOpen", map[string]any{"textDocument": map[string]any{"uri": uri, "languageId": "hledger", "version": 1, "text": op.Text}})
			_ = h.Open(uri, op.Text)
			open[op.Doc] = true
		case "change":
			version++
			_ = w.Notify("textDocument/didChange", json.RawMessage(lspx.ChangeJSON(uri, version, op.Changes)))
			_ = h.Change(uri, version, op.Changes)
		case "close":
			_ = w.Notify("textDocument/didClose", map[string]any{"textDocument": map[string]any{"uri": uri}})
			_ = h.Close(uri)
			delete(open, op.Doc)
		}
		if op.Probe != nil && open[op.Doc] {
			compare(si, op.Op, op.Probe.Kind, uri, op.Probe.Pos)
		}
		if len(ds) > 0 {
			return ds, probes
		}
	}
	// what the server holds at the end, seen through everything derived from the text
	for d := range c01URIs {
		if !open[d] {
			continue
		}
		for _, kind := range []string{"semanticRange", "documentSymbol", "folding", "formatting"} {
			compare(len(c.Ops), "end of history", kind, c01URIs[d], refclient.Pos{})
		}
	}
	return ds, probes
}

var recC01Wire = recC01

func TestC01Wire(t *testing.T) {
	defer recC01.Flush()
	limit := 120
	if tier() == "thorough" {
		limit = 2500
	}
	n := 0
	rapid.Check(t, func(t *rapid.T) {
		if n >= limit && recC01.Evals() > 0 {
			return
		}
		n++
		c := genC01(t)
		ds, probes := c01WireCheck(c)
		recC01.Case(probes > 0, mustJSON(c), "wire")
		recC01.Count("wire_histories", 1)
		recC01.Count("wire_answers_compared", int64(probes))
		report(t, recC01, "c01wire", c, ds)
	})
}

func init() {
	replayers["c01wire"] = func(raw json.RawMessage) ([]ev.Discrepancy, error) {
		var c C01Case
		if err := json.Unmarshal(raw, &c); err != nil {
			return nil, err
		}
		ds, _ := c01WireCheck(&c)
		return ds, nil
	}
}
