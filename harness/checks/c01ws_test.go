package checks

// C01, second clause, across files — "every feature answer is computed from that
// text and from no older version": a small directory (main.journal including
// b.journal, optionally c.journal; with or without a workspace root) goes through
// a history of didOpen (also with text that differs from the file on disk) /
// didChange / didClose without saving / re-open on its three files, the root's
// include line for c.journal coming and going. After every notification a feature
// request is made from an open document and compared with a fresh server started
// on the state the client sees: the files on disk, overlaid with the current text
// of every open document. Which account names each answer mentions tells which
// version of which file the server looked at.

import (
	"encoding/json"
	"fmt"
	"os"
	"path/filepath"
	"strings"
	"testing"

	"pgregory.net/rapid"

	"github.com/juev/hledger-lsp/verifharness/ev"
	"github.com/juev/hledger-lsp/verifharness/lspx"
	"github.com/juev/hledger-lsp/verifharness/refclient"
)

var c01wsNames = []string{"main.journal", "b.journal", "c.journal"}

type C01WSOp struct {
	Op      string `json:"op"` // open | change | close | save (the client writes the buffer to the file, then didSave) | delete (the file of an open document is removed from the disk)
	Doc     int    `json:"doc"`
	Version int    `json:"version"`           // text version of the document after the op (open/change)
	IncC    bool   `json:"inc_c,omitempty"`   // main.journal only: whether it includes c.journal in this version
	Probe   string `json:"probe,omitempty"`   // request kind asked after the op
	From    int    `json:"from"`              // requesting document (must be open)
	Pending bool   `json:"pending,omitempty"` // ask while the background analysis of this notification is held
}

type C01WSCase struct {
	Root    bool      `json:"root"`
	DiskInc bool      `json:"disk_inc_c"` // main.journal on disk includes c.journal
	Ops     []C01WSOp `json:"ops"`
}

// c01wsText is version v of file d. Every version names accounts and a payee template that no
// other version of any file names.
func c01wsText(d, v int, incC bool) string {
	tag := fmt.Sprintf("%c%d", "mbc"[d], v)
	var sb strings.Builder
	if d == 0 {
		sb.WriteString("include b.journal\n")
		if incC {
			sb.WriteString("include c.journal\n")
		}
		sb.WriteString("\n")
	}
	fmt.Fprintf(&sb, "account expenses:decl%s\n\n", tag)
	fmt.Fprintf(&sb, "2024-01-%02d shop\n    expenses:use%s  %d EUR\n    assets:cash\n\n", d+1, tag, v+1)
	fmt.Fprintf(&sb, "2024-02-%02d shop\n\n", d+1)
	return sb.String()
}

type c01wsState struct {
	disk [3]string
	gone [3]bool // no such file on disk
	open [3]bool
	text [3]string
}

func c01wsStart(dir string, root bool, st *c01wsState) (*lspx.Harness, []string, error) {
	uris := make([]string, 3)
	for d := 0; d < 3; d++ {
		p := filepath.Join(dir, c01wsNames[d])
		uris[d] = "file://" + p
		if st.gone[d] {
			continue
		}
		if err := os.WriteFile(p, []byte(st.disk[d]), 0o644); err != nil {
			return nil, nil, err
		}
	}
	opts := lspx.Options{}
	if root {
		opts.RootDir = dir
	}
	h, err := lspx.New(opts)
	return h, uris, err
}

// c01wsProbePos: the blank line after the posting-less "shop" header (inline completion), or inside
// the account of the first posting (completion, references, hover).
func c01wsProbePos(text, kind string) refclient.Pos {
	lines := strings.Split(text, "\n")
	for i, l := range lines {
		if kind == "inlineCompletion" && strings.HasPrefix(l, "2024-02-") {
			return refclient.Pos{Line: i + 1, Char: 0}
		}
		if kind != "inlineCompletion" && strings.HasPrefix(l, "    expenses:use") {
			if kind == "completion" {
				return refclient.Pos{Line: i, Char: 5} // after "    e"
			}
			return refclient.Pos{Line: i, Char: 8}
		}
	}
	return refclient.Pos{}
}

var c01wsSeq int

func c01wsCheck(c *C01WSCase) (ds []ev.Discrepancy, classes []string) {
	installGate()
	cls := map[string]bool{}
	c01wsSeq++
	base := filepath.Join(scratch(), fmt.Sprintf("c01ws-%d", c01wsSeq))
	dir := filepath.Join(base, "w") // the same directory name for the server under test and for every reference server
	_ = os.MkdirAll(dir, 0o755)
	defer os.RemoveAll(base)
	st := &c01wsState{}
	for d := 0; d < 3; d++ {
		st.disk[d] = c01wsText(d, 0, c.DiskInc)
	}
	h, uris, err := c01wsStart(dir, c.Root, st)
	if err != nil {
		return []ev.Discrepancy{ev.D("c01.harness", "%v", err)}, nil
	}
	versions := [3]int{} // per document, from 1 with every didOpen
	for si, op := range c.Ops {
		d := op.Doc
		hold := op.Pending && op.Probe != ""
		if hold {
			gate.hold()
		}
		switch op.Op {
		case "open":
			if st.open[d] {
				gate.release()
				continue
			}
			st.text[d] = c01wsText(d, op.Version, op.IncC)
			st.open[d] = true
			if st.text[d] != st.disk[d] {
				cls["open-with-text-other-than-disk"] = true
			}
			_ = h.Open(uris[d], st.text[d])
			versions[d] = 1
		case "change":
			if !st.open[d] {
				gate.release()
				continue
			}
			old := st.text[d]
			st.text[d] = c01wsText(d, op.Version, op.IncC)
			if d == 0 && strings.Contains(old, "include c.journal") != strings.Contains(st.text[d], "include c.journal") {
				cls["include-line-toggled"] = true
				if st.open[2] && st.text[2] != st.disk[2] {
					cls["file-joins-or-leaves-with-unsaved-edits"] = true
				}
			}
			versions[d]++
			_ = h.Change(uris[d], versions[d], []refclient.Change{{Text: st.text[d]}})
		case "close":
			if !st.open[d] {
				gate.release()
				continue
			}
			if st.text[d] != st.disk[d] {
				cls["close-without-saving"] = true
			}
			st.open[d] = false
			if st.gone[d] {
				cls["close-of-document-without-file"] = true
			}
			_ = h.Close(uris[d])
		case "save":
			if !st.open[d] {
				gate.release()
				continue
			}
			if st.text[d] != st.disk[d] {
				cls["save-changes-file-on-disk"] = true
			}
			st.disk[d] = st.text[d]
			st.gone[d] = false
			_ = os.WriteFile(filepath.Join(dir, c01wsNames[d]), []byte(st.disk[d]), 0o644)
			_ = h.Save(uris[d])
		case "delete":
			// no notification reaches the server: it learns of it when it next reads the file
			if !st.open[d] || st.gone[d] {
				gate.release()
				continue
			}
			st.gone[d], st.disk[d] = true, ""
			_ = os.Remove(filepath.Join(dir, c01wsNames[d]))
			cls["file-of-open-document-deleted"] = true
		}
		if op.Probe == "" || !st.open[op.From] {
			gate.release()
			_ = h.Quiesce()
			continue
		}
		if !hold {
			if err := h.Quiesce(); err != nil {
				return append(ds, ev.D("c01.harness", "%v", err)), keys(cls)
			}
		}
		pos := c01wsProbePos(st.text[op.From], op.Probe)
		got, aerr := ask2(h, op.Probe, uris[op.From], pos)
		gate.release()
		if err := h.Quiesce(); err != nil {
			return append(ds, ev.D("c01.harness", "%v", err)), keys(cls)
		}
		// the reference: a fresh server on what the client sees
		_ = os.Rename(dir, dir+".sut")
		_ = os.MkdirAll(dir, 0o755)
		ref := &c01wsState{}
		for k := 0; k < 3; k++ {
			ref.disk[k], ref.gone[k] = st.disk[k], st.gone[k]
			if st.open[k] && !st.gone[k] {
				ref.disk[k] = st.text[k]
			}
		}
		fresh, furis, ferr := c01wsStart(dir, c.Root, ref)
		want, werr := "", error(nil)
		if ferr == nil {
			for k := 0; k < 3; k++ {
				if st.open[k] {
					_ = fresh.Open(furis[k], st.text[k])
				}
			}
			_ = fresh.Quiesce()
			want, werr = ask2(fresh, op.Probe, furis[op.From], pos)
			_ = fresh.Quiesce()
		}
		_ = os.RemoveAll(dir)
		_ = os.Rename(dir+".sut", dir)
		if ferr != nil || aerr != nil || werr != nil {
			return append(ds, ev.D("c01.harness", "step %d: %v %v %v", si, ferr, aerr, werr)), keys(cls)
		}
		cls["probe:"+op.Probe] = true
		if op.From != 0 && c.Root {
			cls["request-from-non-root-file-in-workspace"] = true
		}
		if got != want {
			var openDocs []string
			for k := 0; k < 3; k++ {
				if st.open[k] {
					openDocs = append(openDocs, c01wsNames[k])
				}
			}
			ds = append(ds, ev.D("c01.answer.other-files", "step %d (%s %s, workspace root %v, open %v): %s from %s answers %.400s; a fresh server on the same files and buffers answers %.400s",
				si, op.Op, c01wsNames[d], c.Root, openDocs, op.Probe, c01wsNames[op.From], got, want))
			break
		}
	}
	gate.release()
	_ = h.Quiesce()
	return ds, keys(cls)
}

func genC01WS(t *rapid.T) *C01WSCase {
	c := &C01WSCase{Root: rapid.Bool().Draw(t, "root"), DiskInc: rapid.Bool().Draw(t, "diskinc")}
	open := [3]bool{}
	incC := c.DiskInc
	steps := rapid.IntRange(2, 9).Draw(t, "steps")
	for s := 0; s < steps; s++ {
		d := rapid.IntRange(0, 2).Draw(t, "doc")
		op := C01WSOp{Doc: d}
		switch {
		case !open[d]:
			op.Op = "open"
			// usually the text on disk, sometimes a restored unsaved buffer
			op.Version = rapid.SampledFrom([]int{0, 0, 0, s + 1}).Draw(t, "openversion")
			open[d] = true
		case rapid.IntRange(0, 3).Draw(t, "close") == 0:
			op.Op = "close"
			open[d] = false
		case rapid.IntRange(0, 4).Draw(t, "save") == 0:
			op.Op = "save"
		case d != 0 && rapid.IntRange(0, 5).Draw(t, "delete") == 0:
			op.Op = "delete"
		default:
			op.Op, op.Version = "change", s+1
		}
		if d == 0 && op.Op != "close" && op.Op != "save" && op.Op != "delete" {
			if rapid.IntRange(0, 2).Draw(t, "toggle") == 0 {
				incC = !incC
			}
			if op.Op == "open" && op.Version == 0 {
				incC = c.DiskInc
			}
			op.IncC = incC
		}
		if op.Op == "close" && d == 0 {
			incC = c.DiskInc // from now on the file on disk counts
		}
		var openDocs []int
		for k := 0; k < 3; k++ {
			if open[k] {
				openDocs = append(openDocs, k)
			}
		}
		if len(openDocs) > 0 && rapid.IntRange(0, 3).Draw(t, "probe") != 0 {
			op.Probe = rapid.SampledFrom([]string{"completion", "completion", "inlineCompletion", "references", "hover", "rename"}).Draw(t, "pkind")
			op.From = rapid.SampledFrom(openDocs).Draw(t, "from")
			op.Pending = rapid.IntRange(0, 3).Draw(t, "pending") == 0
		}
		c.Ops = append(c.Ops, op)
	}
	return c
}

func TestC01WS(t *testing.T) {
	defer recC01.Flush()
	limit := 400
	if tier() == "thorough" {
		limit = 8000
	}
	n := 0
	rapid.Check(t, func(t *rapid.T) {
		if n >= limit && recC01.Evals() > 0 {
			return
		}
		n++
		c := genC01WS(t)
		ds, cls := c01wsCheck(c)
		nt := false
		for _, k := range cls {
			if k == "open-with-text-other-than-disk" || k == "close-without-saving" || k == "include-line-toggled" {
				nt = true
			}
		}
		recC01.Case(nt, mustJSON(c), append(cls, "multi-file", fmt.Sprintf("workspace-root:%v", c.Root))...)
		report(t, recC01, "c01ws", c, ds)
	})
}

func init() {
	replayers["c01ws"] = func(raw json.RawMessage) ([]ev.Discrepancy, error) {
		var c C01WSCase
		if err := json.Unmarshal(raw, &c); err != nil {
			return nil, err
		}
		ds, _ := c01wsCheck(&c)
		return ds, nil
	}
}
