package checks

// C02 — unbalanced-transaction verdicts are exact.
// Oracle: the exact balance rule in rational arithmetic over the model (DESIGN.md 3.4).

import (
	"encoding/json"
	"fmt"
	"math/big"
	"regexp"
	"sort"
	"strings"
	"testing"

	"pgregory.net/rapid"

	"github.com/juev/hledger-lsp/verifharness/ev"
	"github.com/juev/hledger-lsp/verifharness/gen"
	"github.com/juev/hledger-lsp/verifharness/lspx"
	m "github.com/juev/hledger-lsp/verifharness/model"
)

type C02Case struct {
	Journal *m.Journal `json:"journal"`
}

type balExpect struct {
	Unbalanced bool
	Multi      bool
	Residuals  map[string]*big.Rat // commodity -> |total|, non-zero only
}

// exactBalance is the property's rule, verbatim, in rational arithmetic.
func exactBalance(tx *m.Tx) balExpect {
	totals := map[string]*big.Rat{}
	inferred := 0
	add := func(sym string, r *big.Rat) {
		if totals[sym] == nil {
			totals[sym] = new(big.Rat)
		}
		totals[sym].Add(totals[sym], r)
	}
	for _, p := range tx.Postings() {
		if p.Kind == 2 {
			continue // (parenthesised) postings do not take part
		}
		if p.Amt == nil {
			inferred++
			continue
		}
		q := p.Amt.Q.Rat()
		if p.Cost != nil {
			c := p.Cost.A.Q.Rat()
			var v *big.Rat
			if p.Cost.Total {
				v = new(big.Rat).Set(c)
			} else {
				v = new(big.Rat).Mul(new(big.Rat).Abs(q), c)
			}
			switch q.Sign() {
			case -1:
				v.Neg(v)
			case 0:
				v = new(big.Rat)
			}
			add(p.Cost.A.Sym, v)
		} else {
			add(p.Amt.Sym, q)
		}
	}
	ex := balExpect{Residuals: map[string]*big.Rat{}}
	if inferred > 1 {
		ex.Multi = true
		return ex
	}
	if inferred == 1 {
		return ex
	}
	for sym, tot := range totals {
		if tot.Sign() != 0 {
			ex.Unbalanced = true
			ex.Residuals[sym] = new(big.Rat).Abs(tot)
		}
	}
	return ex
}

var offByRe = regexp.MustCompile(`^(.*) off by (\S+)$`)

func parseResiduals(msg string) (map[string]*big.Rat, error) {
	const pre = "transaction does not balance: "
	if !strings.HasPrefix(msg, pre) {
		return nil, fmt.Errorf("unexpected message %q", msg)
	}
	out := map[string]*big.Rat{}
	for _, part := range strings.Split(msg[len(pre):], "; ") {
		mm := offByRe.FindStringSubmatch(part)
		if mm == nil {
			return nil, fmt.Errorf("cannot parse %q in %q", part, msg)
		}
		r, ok := new(big.Rat).SetString(mm[2])
		if !ok {
			return nil, fmt.Errorf("not a number %q in %q", mm[2], msg)
		}
		if _, dup := out[mm[1]]; dup {
			return nil, fmt.Errorf("commodity %q named twice in %q", mm[1], msg)
		}
		out[mm[1]] = r
	}
	return out, nil
}

func residStr(r map[string]*big.Rat) string {
	var parts []string
	for k, v := range r {
		parts = append(parts, fmt.Sprintf("%q:%s", k, v.FloatString(12)))
	}
	sort.Strings(parts)
	return "{" + strings.Join(parts, ", ") + "}"
}

func c02Check(c *C02Case) ([]ev.Discrepancy, *m.Rendered) {
	r := m.Render(c.Journal)
	h, err := lspx.New(lspx.Options{})
	if err != nil {
		return []ev.Discrepancy{ev.D("c02.harness", "%v", err)}, r
	}
	diags, err := h.OpenAndWait("file:///c02/doc.journal", r.Text)
	if err != nil {
		return []ev.Discrepancy{ev.D("c02.harness", "%v", err)}, r
	}
	var ds []ev.Discrepancy
	byLine := map[int][]int{}
	for i, d := range diags {
		code, _ := d.Code.(string)
		if code == "" {
			ds = append(ds, ev.Discrepancy{Assertion: "c02.syntax", Features: featList(r.Feats), Detail: fmt.Sprintf("syntax error %q on line %d of a journal from G", d.Message, d.Range.Start.Line+1)})
			continue
		}
		if code == "UNBALANCED" || code == "MULTIPLE_INFERRED" {
			byLine[int(d.Range.Start.Line)] = append(byLine[int(d.Range.Start.Line)], i)
		}
	}
	for ei, e := range c.Journal.Entries {
		if e.Tx == nil {
			continue
		}
		ex := exactBalance(e.Tx)
		feats := featList(r.EntryFeats[ei])
		line := r.EntryLine[ei]
		pre := fmt.Sprintf("transaction at line %d %q: ", line+1, strings.Join(r.Lines[line:r.EntryEnd[ei]+1], "\\n"))
		var gotUnb, gotMulti int
		var gotRes map[string]*big.Rat
		for _, di := range byLine[line] {
			d := diags[di]
			switch d.Code.(string) {
			case "UNBALANCED":
				gotUnb++
				res, perr := parseResiduals(d.Message)
				if perr != nil {
					ds = append(ds, ev.Discrepancy{Assertion: "c02.message", Features: feats, Detail: pre + perr.Error()})
				}
				gotRes = res
			case "MULTIPLE_INFERRED":
				gotMulti++
			}
		}
		delete(byLine, line)
		if gotUnb > 1 || gotMulti > 1 || (gotUnb > 0 && gotMulti > 0) {
			ds = append(ds, ev.Discrepancy{Assertion: "c02.verdict.duplicate", Features: feats, Detail: pre + fmt.Sprintf("%d UNBALANCED and %d MULTIPLE_INFERRED diagnostics", gotUnb, gotMulti)})
		}
		if ex.Multi != (gotMulti > 0) {
			ds = append(ds, ev.Discrepancy{Assertion: "c02.verdict.multiple-inferred", Features: feats, Detail: pre + fmt.Sprintf("MULTIPLE_INFERRED published=%v, expected=%v", gotMulti > 0, ex.Multi)})
		}
		if ex.Unbalanced != (gotUnb > 0) {
			ds = append(ds, ev.Discrepancy{Assertion: "c02.verdict.unbalanced", Features: feats, Detail: pre + fmt.Sprintf("UNBALANCED published=%v, exact rule says %v with residuals %s", gotUnb > 0, ex.Unbalanced, residStr(ex.Residuals))})
		} else if ex.Unbalanced && gotRes != nil {
			same := len(gotRes) == len(ex.Residuals)
			for k, v := range ex.Residuals {
				if g, ok := gotRes[k]; !ok || g.Cmp(v) != 0 {
					same = false
				}
			}
			if !same {
				ds = append(ds, ev.Discrepancy{Assertion: "c02.residuals", Features: feats, Detail: pre + fmt.Sprintf("message names %s, true residuals are %s", residStr(gotRes), residStr(ex.Residuals))})
			}
		}
	}
	for line, idx := range byLine {
		ds = append(ds, ev.Discrepancy{Assertion: "c02.verdict.misplaced", Features: featList(r.Feats), Detail: fmt.Sprintf("%d balance diagnostics on line %d, which is not a transaction header", len(idx), line+1)})
	}
	return ds, r
}

// ---- generator ----

func ratScaleNum(r *big.Rat, scale int) m.Num { return m.NumFromRat(r, scale) }

func genC02Tx(t *rapid.T, p *gen.Profile, pools *gen.Pools) (*m.Tx, string) {
	base := gen.GenTx(t, p, pools, gen.TxOpts{MaxPostings: 0, MaxScale: 4, MaxDigits: 7})
	base.Body = nil
	syms := append([]string{}, pools.Syms...)
	if rapid.IntRange(0, 5).Draw(t, "allownosym") == 0 {
		syms = append(syms, "")
	}
	mkPosting := func(kindOK bool) *m.Posting {
		po := gen.GenPosting(t, p, pools, gen.TxOpts{MaxScale: 4, MaxDigits: 7})
		po.Amt, po.Cost, po.Assert = nil, nil, nil
		if !kindOK && po.Kind == 2 {
			po.Kind = 0
		}
		if po.Comment != nil && len(po.CSep) < 2 {
			po.CSep = "  "
		}
		return po
	}
	class := rapid.SampledFrom([]string{"balanced-explicit", "balanced-explicit", "balanced-inferred", "unbalanced", "unbalanced", "multi-inferred", "free"}).Draw(t, "class")
	nfree := rapid.IntRange(0, 4).Draw(t, "nfree")
	type tot struct {
		r     *big.Rat
		scale int
	}
	totals := map[string]*tot{}
	addTot := func(sym string, r *big.Rat, scale int) {
		if totals[sym] == nil {
			totals[sym] = &tot{r: new(big.Rat)}
		}
		totals[sym].r.Add(totals[sym].r, r)
		if scale > totals[sym].scale {
			totals[sym].scale = scale
		}
	}
	var posts []*m.Posting
	for i := 0; i < nfree; i++ {
		po := mkPosting(true)
		sym := rapid.SampledFrom(syms).Draw(t, "sym")
		po.Amt = gen.GenAmount(t, p, sym, 4, 7)
		if rapid.IntRange(0, 3).Draw(t, "hascost") == 0 && !po.Amt.Q.IsZero() {
			cs := rapid.SampledFrom(syms).Draw(t, "csym")
			if cs != sym && cs != "" {
				ca := gen.GenAmount(t, p, cs, 3, 5)
				ca.Q.Neg = false
				ca.Style.Plus = false
				if ca.Q.IsZero() {
					ca.Q.Mant = "1"
				}
				po.Cost = &m.Cost{Total: rapid.Bool().Draw(t, "total"), A: *ca}
			}
		}
		if po.Kind != 2 {
			q := po.Amt.Q.Rat()
			if po.Cost != nil {
				c := po.Cost.A.Q.Rat()
				v := new(big.Rat).Set(c)
				sc := po.Cost.A.Q.Scale
				if !po.Cost.Total {
					v.Mul(new(big.Rat).Abs(q), c)
					sc += po.Amt.Q.Scale
				}
				if q.Sign() < 0 {
					v.Neg(v)
				}
				addTot(po.Cost.A.Sym, v, sc)
			} else {
				addTot(po.Amt.Sym, q, po.Amt.Q.Scale)
			}
		}
		posts = append(posts, po)
	}
	cancel := func() {
		var ks []string
		for k := range totals {
			ks = append(ks, k)
		}
		sort.Strings(ks)
		for _, k := range ks {
			tt := totals[k]
			if tt.r.Sign() == 0 {
				continue
			}
			po := mkPosting(false)
			po.Amt = gen.GenAmountFor(t, p, k, ratScaleNum(new(big.Rat).Neg(tt.r), tt.scale))
			posts = append(posts, po)
		}
	}
	switch class {
	case "balanced-explicit":
		cancel()
	case "balanced-inferred":
		posts = append(posts, mkPosting(false))
	case "multi-inferred":
		n := rapid.IntRange(2, 3).Draw(t, "ninferred")
		for i := 0; i < n; i++ {
			posts = append(posts, mkPosting(false))
		}
	case "unbalanced":
		cancel()
		// an exact residual in exactly one commodity, written with its own precision
		po := mkPosting(false)
		sym := rapid.SampledFrom(syms).Draw(t, "rsym")
		q := gen.GenNum(t, 4, 5)
		if rapid.IntRange(0, 3).Draw(t, "tinyresidual") == 0 {
			// the rule is exact at any precision: a residual far below any display precision
			q = gen.GenNum(t, 0, 3)
			q.Scale = rapid.IntRange(9, 30).Draw(t, "tinyscale")
		}
		if q.IsZero() {
			q.Mant = "1"
		}
		po.Amt = gen.GenAmountFor(t, p, sym, q)
		posts = append(posts, po)
	case "free":
		// whatever the free postings sum to; keep inside the quantifier: at most one commodity out of balance
		nz := 0
		for _, tt := range totals {
			if tt.r.Sign() != 0 {
				nz++
			}
		}
		if nz > 1 {
			cancel()
			class = "balanced-explicit"
		}
	}
	// (parenthesised) postings without an amount: outside the rule altogether — they neither
	// absorb a remainder nor count as a missing amount
	if rapid.IntRange(0, 3).Draw(t, "parenless") == 0 {
		n := rapid.IntRange(1, 2).Draw(t, "nparenless")
		for i := 0; i < n; i++ {
			po := mkPosting(true)
			po.Kind = 2
			posts = append(posts, po)
		}
		class += "+paren-amountless"
	}
	// shuffle so the cancelling / amount-less postings are not always last
	order := rapid.Permutation(seq(len(posts))).Draw(t, "order")
	for _, i := range order {
		base.Body = append(base.Body, m.BodyItem{P: posts[i]})
	}
	if len(base.Body) > 6 {
		// the quantifier says 0..6 postings; larger ones are still valid and kept
		class += "+long"
	}
	return base, class
}

var recC02 = ev.New("C02")

func c02Nontrivial(r *m.Rendered, j *m.Journal) bool {
	for i, e := range j.Entries {
		if e.Tx == nil {
			continue
		}
		withAmt := 0
		for _, p := range e.Tx.Postings() {
			if p.Amt != nil {
				withAmt++
			}
		}
		if withAmt < 2 {
			continue
		}
		f := r.EntryFeats[i]
		for _, k := range []string{"num.group", "num.comma-dec", "num.exp", "sign.before-commodity", "commodity.quoted", "posting.cost", "posting.virtual-balanced", "posting.virtual-unbalanced"} {
			if f[k] {
				return true
			}
		}
	}
	return false
}

func TestC02(t *testing.T) {
	defer recC02.Flush()
	sv := newSurvey()
	if surveyOn() {
		defer sv.print()
	}
	rapid.Check(t, func(t *rapid.T) {
		p := profileFor(recC02)
		pools := gen.GenPools(t, p)
		j := &m.Journal{NL: "\n"}
		if rapid.IntRange(0, 4).Draw(t, "crlf") == 0 {
			j.NL = "\r\n"
		}
		n := rapid.IntRange(1, 4).Draw(t, "ntx")
		var classes []string
		for i := 0; i < n; i++ {
			tx, cls := genC02Tx(t, p, pools)
			classes = append(classes, "class:"+cls)
			j.Entries = append(j.Entries, m.Entry{Tx: tx, Blank: rapid.SampledFrom([]int{1, 1, 0, 2}).Draw(t, "blank")})
		}
		c := &C02Case{Journal: j}
		ds, r := c02Check(c)
		nt := c02Nontrivial(r, j)
		recC02.Case(nt, []byte(r.Text), append(classes, featList(r.Feats)...)...)
		if nt && recC02.WantSample() {
			recC02.Sample(r.Text)
		}
		if surveyOn() {
			sv.add(featList(r.Feats), ds)
			return
		}
		report(t, recC02, "c02", c, ds)
	})
}

func init() {
	replayers["c02"] = func(raw json.RawMessage) ([]ev.Discrepancy, error) {
		var c C02Case
		if err := json.Unmarshal(raw, &c); err != nil {
			return nil, err
		}
		ds, _ := c02Check(&c)
		return ds, nil
	}
}
