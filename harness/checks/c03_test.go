package checks

// C03 — supported journals parse silently and faithfully.
// Oracle: the journal model the text was rendered from (DESIGN.md 3.3).

import (
	"encoding/json"
	"fmt"
	"sort"
	"strings"
	"testing"

	"github.com/shopspring/decimal"
	"pgregory.net/rapid"

	"github.com/juev/hledger-lsp/internal/ast"
	"github.com/juev/hledger-lsp/internal/parser"
	"github.com/juev/hledger-lsp/verifharness/ev"
	"github.com/juev/hledger-lsp/verifharness/gen"
	"github.com/juev/hledger-lsp/verifharness/lspx"
	m "github.com/juev/hledger-lsp/verifharness/model"
)

func numEq(n m.Num, d decimal.Decimal) bool {
	x, err := decimal.NewFromString(n.Mant)
	if err != nil {
		return false
	}
	x = x.Shift(int32(-n.Scale))
	if n.Neg {
		x = x.Neg()
	}
	return x.Equal(d)
}

type cmpOut struct {
	ds    []ev.Discrepancy
	feats []string
	pre   string
}

func (o *cmpOut) add(assertion, format string, a ...any) {
	o.ds = append(o.ds, ev.Discrepancy{Assertion: assertion, Features: o.feats, Detail: o.pre + fmt.Sprintf(format, a...)})
}

func cmpAmount(o *cmpOut, what string, ma *m.Amount, a *ast.Amount) {
	if !numEq(ma.Q, a.Quantity) {
		o.add("c03."+what+".quantity", "%s quantity: parsed %s, written %s%s e-%d", what, a.Quantity.String(), map[bool]string{true: "-", false: ""}[ma.Q.Neg], ma.Q.Mant, ma.Q.Scale)
	}
	if ma.Sym != a.Commodity.Symbol {
		o.add("c03."+what+".commodity", "%s commodity: parsed %q, written %q", what, a.Commodity.Symbol, ma.Sym)
	} else if ma.Sym != "" {
		want := ast.CommodityRight
		if ma.Left {
			want = ast.CommodityLeft
		}
		if a.Commodity.Position != want {
			o.add("c03."+what+".side", "%s commodity side: parsed %v, written left=%v", what, a.Commodity.Position, ma.Left)
		}
	}
}

func cmpTags(o *cmpOut, what string, c *m.Comment, tags []ast.Tag) {
	var want, got []string
	for _, kv := range c.Tags() {
		want = append(want, kv[0]+"="+kv[1])
	}
	for _, tg := range tags {
		got = append(got, tg.Name+"="+tg.Value)
	}
	if strings.Join(want, "|") != strings.Join(got, "|") {
		o.add("c03."+what+".tags", "%s tags: parsed %v, written %v", what, got, want)
	}
}

func cmpDate(o *cmpOut, what string, md m.Date, a ast.Date) {
	if a.Year != md.Y || a.Month != md.M || a.Day != md.D {
		o.add("c03."+what, "%s: parsed %d-%d-%d, written %d-%d-%d (%s)", what, a.Year, a.Month, a.Day, md.Y, md.M, md.D, md.String())
	}
}

func cmpTx(o *cmpOut, mt *m.Tx, a *ast.Transaction) {
	cmpDate(o, "date", mt.Date, a.Date)
	if (mt.Date2 == nil) != (a.Date2 == nil) {
		o.add("c03.date2.presence", "secondary date: parsed present=%v, written present=%v", a.Date2 != nil, mt.Date2 != nil)
	} else if mt.Date2 != nil {
		cmpDate(o, "date2", *mt.Date2, *a.Date2)
	}
	if int(a.Status) != mt.Status {
		o.add("c03.status", "status: parsed %d, written %d", a.Status, mt.Status)
	}
	wc := ""
	if mt.Code != nil {
		wc = *mt.Code
	}
	if a.Code != wc {
		o.add("c03.code", "code: parsed %q, written %q", a.Code, wc)
	}
	switch {
	case mt.NoDesc:
		if a.Description != "" {
			o.add("c03.description", "description: parsed %q, none written", a.Description)
		}
	case mt.HasNote:
		if a.Payee != mt.Payee {
			o.add("c03.payee", "payee: parsed %q, written %q", a.Payee, mt.Payee)
		}
		if a.Note != mt.Note {
			o.add("c03.note", "note: parsed %q, written %q", a.Note, mt.Note)
		}
	default:
		if a.Description != mt.Payee {
			o.add("c03.description", "description: parsed %q, written %q", a.Description, mt.Payee)
		}
	}
	if mt.HC != nil {
		// blanks at the end of the line are not part of what the comment says
		if len(a.Comments) < 1 && strings.TrimSpace(mt.HC.Body()) == "" {
			// a comment mark with nothing behind it says nothing: it may or may not be kept as a comment
		} else if len(a.Comments) < 1 || strings.TrimRight(a.Comments[0].Text, " \t") != strings.TrimRight(mt.HC.Body(), " \t") {
			o.add("c03.header-comment.text", "header comment: parsed %v, written %q", a.Comments, mt.HC.Body())
		} else {
			cmpTags(o, "header-comment", mt.HC, a.Comments[0].Tags)
		}
	}
	// indented comment lines: their tags belong to the transaction
	var lineTags []string
	for _, it := range mt.Body {
		if it.C != nil {
			for _, kv := range it.C.Tags() {
				lineTags = append(lineTags, kv[0]+"="+kv[1])
			}
		}
	}
	if len(lineTags) > 0 {
		have := map[string]int{}
		for _, c := range a.Comments {
			for _, tg := range c.Tags {
				have[tg.Name+"="+tg.Value]++
			}
		}
		for _, tg := range a.Tags {
			have[tg.Name+"="+tg.Value]++
		}
		for _, p := range a.Postings {
			for _, tg := range p.Tags {
				have[tg.Name+"="+tg.Value]++
			}
		}
		for _, w := range lineTags {
			if have[w] == 0 {
				o.add("c03.comment-line.tags", "tag %q written on an indented comment line is not in the extracted structure", w)
				break
			}
		}
	}
	mp := mt.Postings()
	if len(mp) != len(a.Postings) {
		o.add("c03.postings.count", "postings: parsed %d, written %d", len(a.Postings), len(mp))
		return
	}
	for i, p := range mp {
		ap := &a.Postings[i]
		pre := o.pre
		o.pre = pre + fmt.Sprintf("posting %d: ", i)
		if int(ap.Status) != p.Status {
			o.add("c03.posting.status", "status: parsed %d, written %d", ap.Status, p.Status)
		}
		if int(ap.Virtual) != p.Kind {
			o.add("c03.posting.kind", "kind: parsed %d, written %d", ap.Virtual, p.Kind)
		}
		if ap.Account.Name != p.Account {
			o.add("c03.posting.account", "account: parsed %q, written %q", ap.Account.Name, p.Account)
		}
		if (p.Amt == nil) != (ap.Amount == nil) {
			o.add("c03.posting.amount.presence", "amount: parsed present=%v, written present=%v", ap.Amount != nil, p.Amt != nil)
		} else if p.Amt != nil {
			cmpAmount(o, "amount", p.Amt, ap.Amount)
		}
		if (p.Cost == nil) != (ap.Cost == nil) {
			o.add("c03.posting.cost.presence", "cost: parsed present=%v, written present=%v", ap.Cost != nil, p.Cost != nil)
		} else if p.Cost != nil {
			if ap.Cost.IsTotal != p.Cost.Total {
				o.add("c03.posting.cost.kind", "cost kind: parsed total=%v, written total=%v", ap.Cost.IsTotal, p.Cost.Total)
			}
			cmpAmount(o, "cost", &p.Cost.A, &ap.Cost.Amount)
		}
		if (p.Assert == nil) != (ap.BalanceAssertion == nil) {
			o.add("c03.posting.assert.presence", "assertion: parsed present=%v, written present=%v", ap.BalanceAssertion != nil, p.Assert != nil)
		} else if p.Assert != nil {
			if ap.BalanceAssertion.IsStrict != p.Assert.Strict {
				o.add("c03.posting.assert.kind", "assertion strictness: parsed %v, written %v", ap.BalanceAssertion.IsStrict, p.Assert.Strict)
			}
			cmpAmount(o, "assertion", &p.Assert.A, &ap.BalanceAssertion.Amount)
		}
		if p.Comment != nil {
			if strings.TrimRight(ap.Comment, " \t") != strings.TrimRight(p.Comment.Body(), " \t") {
				o.add("c03.posting.comment", "comment: parsed %q, written %q", ap.Comment, p.Comment.Body())
			}
			cmpTags(o, "posting", p.Comment, ap.Tags)
		} else if ap.Comment != "" {
			o.add("c03.posting.comment", "comment: parsed %q, none written", ap.Comment)
		}
		o.pre = pre
	}
}

// analyzeFormat reads a sample amount as written by model.Fmt.Render: the last
// mark is the decimal mark, any other separator between digits is the group mark.
func analyzeFormat(s string) (dec, group string, decimals int, ok bool) {
	first, last := -1, -1
	for i := 0; i < len(s); i++ {
		if s[i] >= '0' && s[i] <= '9' {
			if first < 0 {
				first = i
			}
			last = i
		}
	}
	if first < 0 {
		return "", "", 0, false
	}
	end := last + 1
	if end < len(s) && (s[end] == '.' || s[end] == ',') {
		end++
	}
	num := s[first:end]
	di := strings.LastIndexAny(num, ".,")
	if di < 0 {
		return "", "", 0, true
	}
	dec = string(num[di])
	decimals = len(num) - di - 1
	for _, r := range num[:di] {
		if r == '.' || r == ',' || r == ' ' {
			group = string(r)
		}
	}
	return dec, group, decimals, true
}

func cmpFormat(o *cmpOut, what string, f *m.Fmt, got string) {
	// the sample number is what is left when the commodity is taken away (its name may hold digits: "H2O")
	num := strings.Replace(strings.Replace(got, "\""+f.Sym+"\"", "", 1), f.Sym, "", 1)
	dec, group, decimals, ok := analyzeFormat(num)
	if !ok || dec != f.Dec || group != f.Group || decimals != f.Decimals {
		o.add("c03."+what+".format", "%s format: extracted %q (decimal %q group %q decimals %d), written %q (decimal %q group %q decimals %d)", what, got, dec, group, decimals, f.Render(), f.Dec, f.Group, f.Decimals)
	}
}

func cmpDirective(o *cmpOut, md *m.Directive, d ast.Directive) {
	switch md.Kind {
	case "account":
		ad, ok := d.(ast.AccountDirective)
		if !ok {
			o.add("c03.directive.kind", "account directive parsed as %T", d)
			return
		}
		if ad.Account.Name != md.Account {
			o.add("c03.directive.account", "account directive: parsed %q, written %q", ad.Account.Name, md.Account)
		}
		if md.Comment != nil {
			if ad.Comment != md.Comment.Body() {
				o.add("c03.directive.account.comment", "account directive comment: parsed %q, written %q", ad.Comment, md.Comment.Body())
			}
			cmpTags(o, "directive.account", md.Comment, ad.Tags)
		}
	case "commodity", "commodity-sub":
		cd, ok := d.(ast.CommodityDirective)
		if !ok {
			o.add("c03.directive.kind", "commodity directive parsed as %T", d)
			return
		}
		sym := md.Sym
		if md.Fmt != nil {
			sym = md.Fmt.Sym
		}
		if cd.Commodity.Symbol != sym {
			o.add("c03.directive.commodity.symbol", "commodity directive: parsed symbol %q, written %q", cd.Commodity.Symbol, sym)
		}
		if md.Fmt != nil {
			cmpFormat(o, "directive.commodity", md.Fmt, cd.Format)
		} else if cd.Format != "" {
			o.add("c03.directive.commodity.format", "commodity directive without format: extracted format %q", cd.Format)
		}
	case "P":
		pd, ok := d.(ast.PriceDirective)
		if !ok {
			o.add("c03.directive.kind", "P directive parsed as %T", d)
			return
		}
		cmpDate(o, "directive.P.date", *md.Date, pd.Date)
		if pd.Commodity.Symbol != md.Sym {
			o.add("c03.directive.P.commodity", "P directive: parsed commodity %q, written %q", pd.Commodity.Symbol, md.Sym)
		}
		cmpAmount(o, "directive.P.price", md.Price, &pd.Price)
	case "Y", "year":
		yd, ok := d.(ast.YearDirective)
		if !ok {
			o.add("c03.directive.kind", "Y directive parsed as %T", d)
			return
		}
		if yd.Year != md.Year {
			o.add("c03.directive.Y", "Y directive: parsed %d, written %d", yd.Year, md.Year)
		}
	case "D":
		dd, ok := d.(ast.DefaultCommodityDirective)
		if !ok {
			o.add("c03.directive.kind", "D directive parsed as %T", d)
			return
		}
		if dd.Symbol != md.Fmt.Sym {
			o.add("c03.directive.D.symbol", "D directive: parsed symbol %q, written %q", dd.Symbol, md.Fmt.Sym)
		}
		cmpFormat(o, "directive.D", md.Fmt, dd.Format)
	}
}

func featList(f m.Feats) []string {
	var o []string
	for k := range f {
		o = append(o, k)
	}
	sort.Strings(o)
	return o
}

// compareJournal checks a parsed tree against the model it was rendered from.
func compareJournal(j *m.Journal, r *m.Rendered, a *ast.Journal, errs []parser.ParseError) []ev.Discrepancy {
	o := &cmpOut{}
	lineEntry := func(line int) int {
		if line >= 0 && line < len(r.LineInfo) {
			return r.LineInfo[line].Entry
		}
		return -1
	}
	for _, e := range errs {
		ei := lineEntry(e.Pos.Line - 1)
		o.feats = nil
		if ei >= 0 {
			o.feats = featList(r.EntryFeats[ei])
		}
		ln := ""
		if e.Pos.Line-1 < len(r.Lines) && e.Pos.Line >= 1 {
			ln = r.Lines[e.Pos.Line-1]
		}
		o.add("c03.syntax-error", "syntax error %q at %d:%d on line %q", e.Message, e.Pos.Line, e.Pos.Column, ln)
	}
	var mtx, mdir, minc, mcom []int
	for i, e := range j.Entries {
		switch {
		case e.Tx != nil:
			mtx = append(mtx, i)
		case e.Dir != nil && e.Dir.Kind == "include":
			minc = append(minc, i)
		case e.Dir != nil:
			mdir = append(mdir, i)
		case e.CommentLine != nil:
			mcom = append(mcom, i)
		}
	}
	o.feats = featList(r.Feats)
	if len(a.Transactions) != len(mtx) {
		o.add("c03.transactions.count", "transactions: parsed %d, written %d", len(a.Transactions), len(mtx))
	}
	if len(a.Directives) != len(mdir) {
		o.add("c03.directives.count", "directives: parsed %d, written %d", len(a.Directives), len(mdir))
	}
	if len(a.Includes) != len(minc) {
		o.add("c03.includes.count", "includes: parsed %d, written %d", len(a.Includes), len(minc))
	}
	if len(a.Transactions) == len(mtx) {
		for k, ei := range mtx {
			o.feats = featList(r.EntryFeats[ei])
			o.pre = fmt.Sprintf("transaction %d (line %d %q): ", k, r.EntryLine[ei]+1, r.Lines[r.EntryLine[ei]])
			cmpTx(o, j.Entries[ei].Tx, &a.Transactions[k])
		}
	}
	if len(a.Directives) == len(mdir) {
		for k, ei := range mdir {
			o.feats = featList(r.EntryFeats[ei])
			o.pre = fmt.Sprintf("directive %d (line %d %q): ", k, r.EntryLine[ei]+1, r.Lines[r.EntryLine[ei]])
			cmpDirective(o, j.Entries[ei].Dir, a.Directives[k])
		}
	}
	if len(a.Includes) == len(minc) {
		for k, ei := range minc {
			o.feats = featList(r.EntryFeats[ei])
			o.pre = fmt.Sprintf("include %d (line %d): ", k, r.EntryLine[ei]+1)
			if a.Includes[k].Path != j.Entries[ei].Dir.Path {
				o.add("c03.include.path", "include path: parsed %q, written %q", a.Includes[k].Path, j.Entries[ei].Dir.Path)
			}
		}
	}
	o.pre = ""
	if len(mcom) > 0 && len(a.Comments) == len(mcom) {
		for k, ei := range mcom {
			if a.Comments[k].Text != *j.Entries[ei].CommentLine {
				o.feats = featList(r.EntryFeats[ei])
				o.add("c03.topcomment.text", "top-level comment: parsed %q, written %q", a.Comments[k].Text, *j.Entries[ei].CommentLine)
			}
		}
	}
	return o.ds
}

type C03Case struct {
	Journal *m.Journal `json:"journal"`
}

func c03Check(c *C03Case) ([]ev.Discrepancy, *m.Rendered) {
	r := m.Render(c.Journal)
	a, errs := parser.Parse(r.Text)
	ds := compareJournal(c.Journal, r, a, errs)
	// server level: no diagnostic without a code (syntax errors); skipped when the
	// journal has include directives (missing files are load errors, not syntax errors)
	if !r.Feats["dir.include"] {
		h, err := lspx.New(lspx.Options{})
		if err == nil {
			diags, err2 := h.OpenAndWait("file:///c03/doc.journal", r.Text)
			if err2 == nil {
				for _, d := range diags {
					if d.Code == nil || d.Code == "" {
						ds = append(ds, ev.Discrepancy{Assertion: "c03.diagnostic.syntax", Features: featList(r.Feats),
							Detail: fmt.Sprintf("diagnostic without code published: %q at line %d", d.Message, d.Range.Start.Line+1)})
					}
				}
			}
		}
	}
	return ds, r
}

func c03Nontrivial(j *m.Journal, r *m.Rendered) bool {
	for i, e := range j.Entries {
		if e.Tx == nil || len(e.Tx.Postings()) < 2 {
			continue
		}
		f := r.EntryFeats[i]
		for _, k := range []string{"posting.cost", "posting.assert", "posting.virtual-balanced", "posting.virtual-unbalanced", "tx.code", "tx.date2", "tx.pipe"} {
			if f[k] {
				return true
			}
		}
		for k := range f {
			if strings.HasPrefix(k, "descr.") && k != "descr.plain" {
				return true
			}
		}
		if r.Feats["eol.crlf"] || r.Feats["text.nonascii"] {
			return true
		}
		for _, it := range e.Tx.Body {
			if it.P != nil && it.P.Comment != nil && len(it.P.Comment.Tags()) > 0 {
				return true
			}
		}
	}
	return false
}

var recC03 = ev.New("C03")

func profileFor(rec *ev.Recorder) *gen.Profile {
	return &gen.Profile{Off: disabled, Excluded: rec.Excluded}
}

var c03Opts = gen.JournalOpts{MinEntries: 1, MaxEntries: 8, Directives: true, TopComments: true,
	Tx: gen.TxOpts{MaxPostings: 5, MaxScale: 6, MaxDigits: 9}}

func TestC03(t *testing.T) {
	defer recC03.Flush()
	sv := newSurvey()
	if surveyOn() {
		defer sv.print()
	}
	rapid.Check(t, func(t *rapid.T) {
		p := profileFor(recC03)
		pools := gen.GenPools(t, p)
		c := &C03Case{Journal: gen.GenJournal(t, p, pools, c03Opts)}
		ds, r := c03Check(c)
		nt := c03Nontrivial(c.Journal, r)
		recC03.Case(nt, []byte(r.Text), featList(r.Feats)...)
		if nt && recC03.WantSample() {
			recC03.Sample(r.Text)
		}
		if surveyOn() {
			sv.add(featList(r.Feats), ds)
			return
		}
		report(t, recC03, "c03", c, ds)
	})
}

func init() {
	replayers["c03"] = func(raw json.RawMessage) ([]ev.Discrepancy, error) {
		var c C03Case
		if err := json.Unmarshal(raw, &c); err != nil {
			return nil, err
		}
		ds, _ := c03Check(&c)
		return ds, nil
	}
}
