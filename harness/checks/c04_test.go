package checks

// C04 — formatting never changes what the journal says.
// C05 — formatting is idempotent, aligned and returns well-formed edits.
// Oracles: reference edit applier (refclient), re-parse and re-analysis of the
// formatted text compared with the original (metamorphic), line-level
// preservation rules, and a structural alignment predicate.

import (
	"context"
	"encoding/json"
	"fmt"
	"math/big"
	"os"
	"regexp"
	"sort"
	"strings"
	"testing"
	"unicode"

	"go.lsp.dev/protocol"
	"pgregory.net/rapid"

	"github.com/juev/hledger-lsp/internal/ast"
	"github.com/juev/hledger-lsp/internal/parser"
	"github.com/juev/hledger-lsp/verifharness/ev"
	"github.com/juev/hledger-lsp/verifharness/gen"
	"github.com/juev/hledger-lsp/verifharness/lspx"
	m "github.com/juev/hledger-lsp/verifharness/model"
	"github.com/juev/hledger-lsp/verifharness/refclient"
)

type FmtCase struct {
	Journal   *m.Journal `json:"journal,omitempty"`
	Damage    *C07Case   `json:"damage,omitempty"` // journal with one damaged entry
	Text      string     `json:"text,omitempty"`   // arbitrary text
	// JunkBefore (with Damage): that many lines no journal has (rows of a pasted CSV export), each a
	// syntax error of its own, stand in front of the journal
	JunkBefore int `json:"junk_before,omitempty"`
	Indent    int        `json:"indent"`
	Align     bool       `json:"align"`
	MinCol    int        `json:"mincol"`
	WSFormats []m.Fmt    `json:"ws_formats,omitempty"` // commodity formats declared in another workspace file
	Encoding  int        `json:"encoding"`
	// KeepBlanksLines: leave whitespace-only lines as generated. When false they
	// are emptied (open finding C04-F1: the formatter trims such a line inside a
	// transaction, which then ends there).
	KeepBlanksLines bool `json:"keep_blanks_lines,omitempty"`
}

func (c *FmtCase) text() (string, *m.Rendered) {
	t, r := c.rawText()
	if !c.KeepBlanksLines {
		ls := strings.Split(t, "\n")
		for i, l := range ls {
			body := strings.TrimSuffix(l, "\r")
			if body != "" && strings.TrimLeft(body, " \t") == "" {
				ls[i] = l[len(body):]
			}
		}
		t = strings.Join(ls, "\n")
	}
	return t, r
}

func (c *FmtCase) rawText() (string, *m.Rendered) {
	switch {
	case c.Journal != nil:
		r := m.Render(c.Journal)
		return r.Text, r
	case c.Damage != nil:
		r := m.Render(c.Damage.Journal)
		nl := c.Damage.Journal.NL
		if nl == "" {
			nl = "\n"
		}
		s0, e0 := r.EntryLine[c.Damage.Entry], r.EntryEnd[c.Damage.Entry]
		dmg := applyDamage(r.Lines[s0:e0+1], c.Damage.Ops)
		var ls []string
		for i := 0; i < c.JunkBefore; i++ {
			ls = append(ls, fmt.Sprintf("\"row %d\";\"CARD PAYMENT\";\"-12,00\";\"EUR\"", i+1))
		}
		if c.JunkBefore > 0 {
			ls = append(ls, "")
		}
		ls = append(ls, r.Lines[:s0]...)
		ls = append(ls, dmg...)
		ls = append(ls, r.Lines[e0+1:]...)
		return strings.Join(ls, nl) + nl, nil
	}
	return c.Text, nil
}

func ratOfDecimalString(s string) string {
	r, ok := new(big.Rat).SetString(s)
	if !ok {
		return "?" + s
	}
	return r.RatString()
}

func amountKey(a *ast.Amount) string {
	if a == nil {
		return "-"
	}
	side := int(a.Commodity.Position)
	if a.Commodity.Symbol == "" {
		side = 0 // no commodity, no side
	}
	return fmt.Sprintf("%s|%q|side%d", ratOfDecimalString(a.Quantity.String()), a.Commodity.Symbol, side)
}

func tagsKey(ts []ast.Tag) string {
	var o []string
	for _, t := range ts {
		o = append(o, t.Name+"="+t.Value)
	}
	return strings.Join(o, ",")
}

// meaningKeys lists what a journal says, entry by entry, without positions or spellings.
func meaningKeys(j *ast.Journal) []string {
	var out []string
	for _, tx := range j.Transactions {
		var sb strings.Builder
		fmt.Fprintf(&sb, "tx %04d-%02d-%02d", tx.Date.Year, tx.Date.Month, tx.Date.Day)
		if tx.Date2 != nil {
			fmt.Fprintf(&sb, "=%04d-%02d-%02d", tx.Date2.Year, tx.Date2.Month, tx.Date2.Day)
		}
		// trailing blanks of a header line may be trimmed: an unterminated code ends with the line
		fmt.Fprintf(&sb, " st%d code%q desc%q payee%q note%q", tx.Status, strings.TrimRight(tx.Code, " \t"), tx.Description, tx.Payee, tx.Note)
		for _, c := range tx.Comments {
			fmt.Fprintf(&sb, " comment%q[%s]", strings.TrimSpace(c.Text), tagsKey(c.Tags))
		}
		for _, p := range tx.Postings {
			fmt.Fprintf(&sb, "\n  p st%d v%d %q amt(%s)", p.Status, p.Virtual, p.Account.Name, amountKey(p.Amount))
			if p.Cost != nil {
				fmt.Fprintf(&sb, " cost(total=%v %s)", p.Cost.IsTotal, amountKey(&p.Cost.Amount))
			}
			if p.BalanceAssertion != nil {
				fmt.Fprintf(&sb, " assert(strict=%v inclusive=%v %s)", p.BalanceAssertion.IsStrict, p.BalanceAssertion.IsInclusive, amountKey(&p.BalanceAssertion.Amount))
			}
			fmt.Fprintf(&sb, " comment%q[%s]", strings.TrimSpace(p.Comment), tagsKey(p.Tags))
		}
		out = append(out, sb.String())
	}
	for _, d := range j.Directives {
		switch v := d.(type) {
		case ast.AccountDirective:
			out = append(out, fmt.Sprintf("account %q comment%q[%s] %v", v.Account.Name, strings.TrimSpace(v.Comment), tagsKey(v.Tags), v.Subdirs))
		case ast.CommodityDirective:
			// a directive line may lose its trailing blanks: an unterminated quoted symbol ends with the line
			out = append(out, fmt.Sprintf("commodity %q format%q %v", strings.TrimRight(v.Commodity.Symbol, " \t"), strings.TrimRight(v.Format, " \t"), v.Subdirs))
		case ast.PriceDirective:
			// as above: an unterminated quoted symbol at the end of the line loses its trailing blanks
			price := v.Price
			price.Commodity.Symbol = strings.TrimRight(price.Commodity.Symbol, " \t")
			out = append(out, fmt.Sprintf("P %04d-%02d-%02d %q %s", v.Date.Year, v.Date.Month, v.Date.Day, strings.TrimRight(v.Commodity.Symbol, " \t"), amountKey(&price)))
		case ast.YearDirective:
			out = append(out, fmt.Sprintf("Y %d", v.Year))
		case ast.DefaultCommodityDirective:
			out = append(out, fmt.Sprintf("D %q %q", strings.TrimRight(v.Symbol, " \t"), strings.TrimRight(v.Format, " \t")))
		default:
			out = append(out, fmt.Sprintf("%T", d))
		}
	}
	for _, inc := range j.Includes {
		out = append(out, "include "+inc.Path)
	}
	for _, c := range j.Comments {
		out = append(out, fmt.Sprintf("comment %q", strings.TrimRight(c.Text, " \t")))
	}
	return out
}

// expRe matches a number with an exponent: its "e" is part of the number, which
// formatting may legitimately respell.
var expRe = regexp.MustCompile(`\d[\d., ]*[eE][+-]?\d+`)

var numRe = regexp.MustCompile(`-?\d+(\.\d+)?`)

func normMsg(s string) string {
	return numRe.ReplaceAllStringFunc(s, func(x string) string { return ratOfDecimalString(x) })
}

func diagLineKeys(ds []protocol.Diagnostic) []string {
	var out []string
	for _, d := range ds {
		out = append(out, fmt.Sprintf("%v|%s|line %d", d.Code, normMsg(d.Message), d.Range.Start.Line))
	}
	sort.Strings(out)
	return out
}

func letterRuns(s string) []string {
	var out []string
	cur := ""
	for _, r := range s {
		if unicode.IsLetter(r) {
			cur += string(r)
		} else if cur != "" {
			out = append(out, cur)
			cur = ""
		}
	}
	if cur != "" {
		out = append(out, cur)
	}
	return out
}

func isSubsequence(needle, hay []string) bool {
	i := 0
	for _, h := range hay {
		if i < len(needle) && needle[i] == h {
			i++
		}
	}
	return i == len(needle)
}

const fmtURI = "file:///fmt/doc.journal"

type fmtResult struct {
	c04, c05     []ev.Discrepancy
	changedAmt   bool // the formatter changed >=1 posting line that carries an amount
	alignCase    bool // >=2 posting lines with amounts and accounts of different widths, or a non-ASCII account
	text, result string
}

func splitLinesKeep(s string) []string { return strings.Split(s, "\n") }

func fmtCheck(c *FmtCase) *fmtResult {
	res := &fmtResult{}
	text, _ := c.text()
	res.text = text
	var feats []string
	if c.Journal != nil {
		feats = featList(m.Render(c.Journal).Feats)
	}
	add04 := func(assertion, format string, a ...any) {
		if len(res.c04) < 20 {
			res.c04 = append(res.c04, ev.Discrepancy{Assertion: assertion, Features: feats, Detail: fmt.Sprintf(format, a...)})
		}
	}
	add05 := func(assertion, format string, a ...any) {
		if len(res.c05) < 20 {
			res.c05 = append(res.c05, ev.Discrepancy{Assertion: assertion, Features: feats, Detail: fmt.Sprintf(format, a...)})
		}
	}
	fo := map[string]any{"indentSize": c.Indent, "alignAmounts": c.Align, "minAlignmentColumn": c.MinCol}
	var init map[string]any
	switch c.Encoding % 3 {
	case 0:
		init = map[string]any{"formatting": fo}
	case 1:
		init = map[string]any{"hledger": map[string]any{"formatting": fo}}
	default:
		init = map[string]any{"formatting.indentSize": c.Indent, "formatting.alignAmounts": c.Align, "formatting.minAlignmentColumn": c.MinCol}
	}
	var h *lspx.Harness
	var err error
	uri := fmtURI
	if len(c.WSFormats) > 0 {
		// the formats live in another file of the workspace
		ws := &gen.Workspace{Includes: [][]int{{}}}
		mj := &m.Journal{NL: "\n"}
		for i := range c.WSFormats {
			f := c.WSFormats[i]
			mj.Entries = append(mj.Entries, m.Entry{Dir: &m.Directive{Kind: "commodity", Fmt: &f}})
		}
		ws.Files = []gen.WSFile{{Rel: "main.journal", Journal: mj}}
		env, e2 := newWSEnv(ws, true, lspx.Options{InitOptions: init})
		if e2 != nil {
			add04("fmt.harness", "%v", e2)
			return res
		}
		defer env.Cleanup()
		h = env.H
		uri = "file://" + env.Dir + "/doc.journal"
	} else {
		h, err = lspx.New(lspx.Options{InitOptions: init})
		if err != nil {
			add04("fmt.harness", "%v", err)
			return res
		}
	}
	d1, err := h.OpenAndWait(uri, text)
	if err != nil {
		add04("fmt.harness", "%v", err)
		return res
	}
	format := func() ([]protocol.TextEdit, error) {
		var edits []protocol.TextEdit
		var ferr error
		if perr := lspx.Guard(func() {
			edits, ferr = h.S.Format(context.Background(), &protocol.DocumentFormattingParams{TextDocument: tdi(uri)})
		}); perr != nil {
			return nil, perr
		}
		return edits, ferr
	}
	edits, ferr := format()
	if ferr != nil {
		add05("c05.total", "formatting failed: %v", ferr)
		return res
	}
	buf := refclient.New(text)
	var redits []refclient.Edit
	for i, e := range edits {
		rg := protoToRef(e.Range)
		if verr := buf.ValidateRange(rg); verr != nil {
			add05("c05.edit.valid", "edit %d %d:%d-%d:%d: %v (line %q)", i, rg.Start.Line, rg.Start.Char, rg.End.Line, rg.End.Char, verr, buf.Line(rg.Start.Line))
		}
		redits = append(redits, refclient.Edit{Range: rg, Text: e.NewText})
	}
	if len(res.c05) > 0 {
		return res
	}
	out, aerr := buf.ApplyEdits(redits)
	if aerr != nil {
		add05("c05.edit.overlap", "%v", aerr)
		return res
	}
	text2 := out.String()
	res.result = text2

	// ---- C04
	j1, _ := parser.Parse(text)
	j2, errs2 := parser.Parse(text2)
	errLine2 := map[int]bool{} // lines of the result that carry a syntax error: only partly understood
	for _, e := range errs2 {
		errLine2[e.Pos.Line-1] = true
	}
	k1, k2 := meaningKeys(j1), meaningKeys(j2)
	if strings.Join(k1, "\n") != strings.Join(k2, "\n") {
		// first difference
		i := 0
		for i < len(k1) && i < len(k2) && k1[i] == k2[i] {
			i++
		}
		a, b := "<nothing>", "<nothing>"
		if i < len(k1) {
			a = k1[i]
		}
		if i < len(k2) {
			b = k2[i]
		}
		add04("c04.meaning", "formatting (indent %d align %v mincol %d, %d workspace formats) changes what the journal says:\n  before: %.600s\n  after:  %.600s\n  text before: %.400q\n  text after:  %.400q", c.Indent, c.Align, c.MinCol, len(c.WSFormats), a, b, text, text2)
	}
	_ = h.Change(uri, 2, []refclient.Change{{Text: text2}})
	if err := h.Quiesce(); err != nil {
		add04("fmt.harness", "%v", err)
		return res
	}
	d2, _ := h.C.LastDiagnostics(uri)
	dk1, dk2 := diagLineKeys(d1), diagLineKeys(d2)
	if strings.Join(dk1, "\n") != strings.Join(dk2, "\n") {
		add04("c04.diagnostics", "diagnostics before %v, after formatting %v (text before %.300q, after %.300q)", dk1, dk2, text, text2)
	}
	l1, l2 := splitLinesKeep(text), splitLinesKeep(text2)
	postingLine := map[int]bool{}
	for _, tx := range j1.Transactions {
		for _, p := range tx.Postings {
			postingLine[p.Range.Start.Line-1] = true
		}
	}
	if len(l1) != len(l2) {
		add04("c04.lines.count", "the document has %d lines before and %d after formatting", len(l1), len(l2))
	} else {
		for i := range l1 {
			if postingLine[i] {
				if l1[i] != l2[i] {
					if !isSubsequence(letterRuns(expRe.ReplaceAllString(l1[i], "0")), letterRuns(l2[i])) {
						add04("c04.deleted-text", "line %d %q became %q: text was deleted", i, l1[i], l2[i])
					}
					for _, tx := range j1.Transactions {
						for _, p := range tx.Postings {
							if p.Range.Start.Line-1 == i && p.Amount != nil {
								res.changedAmt = true
							}
						}
					}
				}
				continue
			}
			orig := strings.TrimSuffix(l1[i], "\r")
			got := strings.TrimSuffix(l2[i], "\r")
			// a line that is not a posting may lose trailing blanks (ASCII or not), nothing else
			onlyBlanksLost := strings.HasPrefix(orig, got) && strings.TrimFunc(orig[len(got):], unicode.IsSpace) == ""
			if !onlyBlanksLost || strings.HasSuffix(l1[i], "\r") != strings.HasSuffix(l2[i], "\r") {
				add04("c04.other-lines", "line %d is not a posting but changed from %q to %q", i, l1[i], l2[i])
			}
		}
	}

	// ---- C05: idempotence
	edits2, ferr2 := format()
	if ferr2 != nil {
		add05("c05.total", "second formatting failed: %v", ferr2)
		return res
	}
	buf2 := refclient.New(text2)
	var redits2 []refclient.Edit
	for _, e := range edits2 {
		redits2 = append(redits2, refclient.Edit{Range: protoToRef(e.Range), Text: e.NewText})
	}
	out2, aerr2 := buf2.ApplyEdits(redits2)
	if aerr2 != nil {
		add05("c05.edit.second", "edits of the second formatting: %v", aerr2)
	} else if out2.String() != text2 {
		la, lb := splitLinesKeep(text2), splitLinesKeep(out2.String())
		i := 0
		for i < len(la) && i < len(lb) && la[i] == lb[i] {
			i++
		}
		a, b := "", ""
		if i < len(la) {
			a = la[i]
		}
		if i < len(lb) {
			b = lb[i]
		}
		add05("c05.idempotent", "formatting already formatted text changes line %d from %q to %q (original line %q)", i, a, b, lineOr(l1, i))
	}
	// ---- C05: indentation and alignment of the formatted text
	if c.Align && len(l1) == len(l2) {
		type pinfo struct {
			line, amtCol, field int
			status              bool
		}
		var ps []pinfo
		widths := map[int]bool{}
		for _, tx := range j2.Transactions {
			for _, p := range tx.Postings {
				li := p.Range.Start.Line - 1
				if li < 0 || li >= len(l2) || errLine2[li] {
					continue
				}
				line := strings.TrimSuffix(l2[li], "\r")
				lead := len(line) - len(strings.TrimLeft(line, " "))
				if lead != c.Indent || (len(line) > lead && (line[lead] == '\t')) {
					add05("c05.indent", "posting line %d %q starts with %d blanks, the configured indent is %d", li, line, lead, c.Indent)
				}
				field := len([]rune(p.Account.Name))
				if p.Virtual != ast.VirtualNone {
					field += 2
				}
				if strings.ContainsFunc(p.Account.Name, func(r rune) bool { return r > 127 }) {
					res.alignCase = true
				}
				if p.Amount == nil {
					continue
				}
				// column (code points) where the amount starts
				col := len([]rune(refclient.New(line).Slice(refclient.Range{Start: refclient.Pos{Line: 0, Char: 0}, End: refclient.Pos{Line: 0, Char: p.Amount.Range.Start.Column - 1}})))
				ps = append(ps, pinfo{li, col, field, p.Status != ast.StatusNone})
				widths[field] = true
			}
		}
		if len(widths) >= 2 {
			res.alignCase = true
		}
		common := -1
		for _, p := range ps {
			if p.status {
				continue
			}
			if common == -1 {
				common = p.amtCol
			} else if p.amtCol != common {
				add05("c05.align.common-column", "amount of line %d %q starts in column %d, another amount starts in column %d", p.line, l2[p.line], p.amtCol, common)
				break
			}
		}
		if common >= 0 {
			longest := 0
			for _, p := range ps {
				if !p.status && p.field > longest {
					longest = p.field
				}
			}
			if common < c.Indent+longest+2 {
				add05("c05.align.two-spaces", "amounts start in column %d, less than indent %d + longest account %d + 2", common, c.Indent, longest)
			}
			if common < c.MinCol {
				add05("c05.align.min-column", "amounts start in column %d, the configured minimum column is %d", common, c.MinCol)
			}
		}
	}
	return res
}

// ---- generator ----

var fmtJOpts = gen.JournalOpts{MinEntries: 1, MaxEntries: 5, Directives: true, TopComments: true, NoIncludes: true,
	Tx: gen.TxOpts{MaxPostings: 4, MaxScale: 6, MaxDigits: 8}}

func genFmtCase(t *rapid.T, p *gen.Profile) *FmtCase {
	c := &FmtCase{KeepBlanksLines: !p.Off("fmt.blanks-line-in-tx"), Indent: rapid.IntRange(1, 8).Draw(t, "indent"), Align: rapid.IntRange(0, 3).Draw(t, "align") != 0, MinCol: rapid.SampledFrom([]int{0, 0, 10, 40, 80, 25}).Draw(t, "mincol"),
		Encoding: rapid.IntRange(0, 2).Draw(t, "enc")}
	pools := gen.GenPools(t, p)
	switch rapid.IntRange(0, 9).Draw(t, "input") {
	case 0:
		c.Text = genSoup(t, 40)
	case 1, 2:
		pp := &gen.Profile{Off: func(f string) bool { return f == "dir.Y" || f == "date.partial" || f == "date2.partial" || p.Off(f) }, Excluded: p.Excluded}
		j := gen.GenJournal(t, pp, pools, c07Opts)
		r := m.Render(j)
		e := rapid.IntRange(0, len(j.Entries)-1).Draw(t, "entry")
		c.Damage = &C07Case{Journal: j, Entry: e, Ops: genDamage(t, r.EntryEnd[e]-r.EntryLine[e]+1)}
		if rapid.IntRange(0, 3).Draw(t, "junk") == 0 {
			// however many errors come first, what is not understood stays as written
			c.JunkBefore = rapid.SampledFrom([]int{1, 30, 99, 100, 101, 128, 256, 300}).Draw(t, "njunk")
		}
	default:
		c.Journal = gen.GenJournal(t, p, pools, fmtJOpts)
	}
	if rapid.IntRange(0, 3).Draw(t, "wsformats") == 0 {
		for _, s := range pools.Syms {
			if rapid.Bool().Draw(t, "hasfmt") {
				c.WSFormats = append(c.WSFormats, *gen.GenFmt(t, p, s))
			}
		}
	}
	return c
}

var recC04 = ev.New("C04")
var recC05 = ev.New("C05")

func fmtClasses(c *FmtCase) []string {
	cls := []string{fmt.Sprintf("align:%v", c.Align), fmt.Sprintf("wsformats:%v", len(c.WSFormats) > 0)}
	switch {
	case c.Journal != nil:
		cls = append(cls, "input:journal")
		for f := range m.Render(c.Journal).Feats {
			if strings.HasPrefix(f, "dir.commodity") || f == "dir.D" || f == "eol.crlf" {
				cls = append(cls, f)
			}
		}
	case c.Damage != nil:
		cls = append(cls, "input:damaged")
		if c.JunkBefore >= 100 {
			cls = append(cls, "input:hundred-or-more-errors-before")
		}
	default:
		cls = append(cls, "input:soup")
	}
	return cls
}

func TestC04(t *testing.T) {
	defer recC04.Flush()
	onWideGlobDamage = func() { recC04.Excluded("include.wide-glob") }
	sv := newSurvey()
	if surveyOn() {
		defer sv.print()
	}
	rapid.Check(t, func(t *rapid.T) {
		c := genFmtCase(t, profileFor(recC04))
		r := fmtCheck(c)
		recC04.Case(r.changedAmt, mustJSON(c), fmtClasses(c)...)
		if r.changedAmt && recC04.WantSample() {
			recC04.Sample(map[string]any{"indent": c.Indent, "align": c.Align, "mincol": c.MinCol, "before": r.text, "after": r.result})
		}
		if surveyOn() {
			var fs []string
			if c.Journal != nil {
				fs = featList(m.Render(c.Journal).Feats)
			}
			sv.add(append(fs, fmtClasses(c)...), r.c04)
			return
		}
		report(t, recC04, "c04", c, r.c04)
	})
}

func TestC05(t *testing.T) {
	defer recC05.Flush()
	onWideGlobDamage = func() { recC05.Excluded("include.wide-glob") }
	sv := newSurvey()
	if surveyOn() {
		defer sv.print()
	}
	rapid.Check(t, func(t *rapid.T) {
		c := genFmtCase(t, profileFor(recC05))
		r := fmtCheck(c)
		recC05.Case(r.alignCase, mustJSON(c), fmtClasses(c)...)
		if r.alignCase && recC05.WantSample() {
			recC05.Sample(map[string]any{"indent": c.Indent, "align": c.Align, "mincol": c.MinCol, "before": r.text, "after": r.result})
		}
		if surveyOn() {
			var fs []string
			if c.Journal != nil {
				fs = featList(m.Render(c.Journal).Feats)
			}
			sv.add(append(fs, fmtClasses(c)...), r.c05)
			return
		}
		report(t, recC05, "c05", c, r.c05)
	})
}

func init() {
	replayers["c04"] = func(raw json.RawMessage) ([]ev.Discrepancy, error) {
		var c FmtCase
		if err := json.Unmarshal(raw, &c); err != nil {
			return nil, err
		}
		r := fmtCheck(&c)
		if d := os.Getenv("VERIF_DUMP"); d != "" {
			_ = os.WriteFile(d+".before", []byte(r.text), 0o644)
			_ = os.WriteFile(d+".after", []byte(r.result), 0o644)
		}
		return r.c04, nil
	}
	replayers["c05"] = func(raw json.RawMessage) ([]ev.Discrepancy, error) {
		var c FmtCase
		if err := json.Unmarshal(raw, &c); err != nil {
			return nil, err
		}
		return fmtCheck(&c).c05, nil
	}
}
