package checks

// C06 — every request is total and time-bounded on arbitrary content.
// Oracles (inside the targets): lexer progress/coverage invariants; no panic
// and no hang of any request at any position; CPU time within a budget linear
// in the input size; growth of the cost of scalable shapes.

import (
	"context"
	"encoding/base64"
	"encoding/json"
	"fmt"
	"os"
	"path/filepath"
	"regexp"
	"runtime"
	"sort"
	"strings"
	"syscall"
	"testing"
	"time"
	"unicode/utf8"

	"go.lsp.dev/protocol"
	"pgregory.net/rapid"

	"github.com/juev/hledger-lsp/internal/parser"
	"github.com/juev/hledger-lsp/verifharness/ev"
	"github.com/juev/hledger-lsp/verifharness/gen"
	"github.com/juev/hledger-lsp/verifharness/lspx"
	m "github.com/juev/hledger-lsp/verifharness/model"
	"github.com/juev/hledger-lsp/verifharness/refclient"
)

type C06Case struct {
	B64       string `json:"b64"`                  // the document content, any bytes
	PosSeed   int    `json:"pos_seed"`             // selects the cursor positions
	Preview   string `json:"preview"`              // printable prefix, for the reader
	ScaleUnit string `json:"scale_unit,omitempty"` // when set: a scaling case, unit repeated K and 4K times
	ScaleK    int    `json:"scale_k,omitempty"`
	ScaleSep  string `json:"scale_sep,omitempty"`
	ScalePre  string `json:"scale_pre,omitempty"`
	ScalePost string `json:"scale_post,omitempty"` // text after the repeated units; in a unit, %a stands for the unit's index written in letters (A, B, ... AA)
}

func (c *C06Case) content() string {
	b, _ := base64.StdEncoding.DecodeString(c.B64)
	return string(b)
}

func newC06Case(content string, posSeed int) *C06Case {
	p := content
	if len(p) > 200 {
		p = p[:200]
	}
	return &C06Case{B64: base64.StdEncoding.EncodeToString([]byte(content)), PosSeed: posSeed, Preview: strings.ToValidUTF8(p, "�")}
}

func cpuNow() time.Duration {
	var ru syscall.Rusage
	_ = syscall.Getrusage(syscall.RUSAGE_SELF, &ru)
	return time.Duration(ru.Utime.Nano() + ru.Stime.Nano())
}

// lexerInvariants checks the token stream of an arbitrary input.
func lexerInvariants(input string) []ev.Discrepancy {
	var ds []ev.Discrepancy
	l := parser.NewLexer(input)
	prevEnd := 0
	line := 1
	n := 0
	for {
		tok := l.Next()
		n++
		if n > len(input)+2 {
			return append(ds, ev.D("c06.lexer.count", "more than len+1 = %d tokens", len(input)+1))
		}
		if tok.Pos.Offset < 0 || tok.End.Offset < tok.Pos.Offset || tok.End.Offset > len(input) {
			return append(ds, ev.D("c06.lexer.bounds", "token %d %v has offsets %d..%d outside the input of length %d", n, tok.Type, tok.Pos.Offset, tok.End.Offset, len(input)))
		}
		if tok.Pos.Offset < prevEnd {
			return append(ds, ev.D("c06.lexer.overlap", "token %d %v starts at offset %d, before the end %d of the previous token", n, tok.Type, tok.Pos.Offset, prevEnd))
		}
		if tok.Type == parser.TokenEOF {
			if tok.Pos.Offset != len(input) {
				ds = append(ds, ev.D("c06.lexer.eof", "end-of-input token at offset %d, input length %d", tok.Pos.Offset, len(input)))
			}
			// whatever lies between the last token and the end must be white space the lexer may skip
			if rest := input[prevEnd:]; strings.TrimSpace(rest) != "" {
				ds = append(ds, ev.D("c06.lexer.coverage", "input %q between the last token and the end is covered by no token", rest))
			}
			return ds
		}
		if tok.End.Offset <= prevEnd && tok.End.Offset == tok.Pos.Offset {
			return append(ds, ev.D("c06.lexer.progress", "token %d %v at offset %d is empty: no progress", n, tok.Type, tok.Pos.Offset))
		}
		// skipped text between tokens may only be white space
		if gap := input[prevEnd:tok.Pos.Offset]; strings.TrimSpace(gap) != "" {
			ds = append(ds, ev.D("c06.lexer.coverage", "input %q between tokens %d and %d is covered by no token", gap, n-1, n))
			return ds
		}
		if tok.Pos.Line != line {
			return append(ds, ev.D("c06.lexer.lines", "token %d %v reports line %d, expected %d (lines grow only at newline tokens)", n, tok.Type, tok.Pos.Line, line))
		}
		if tok.Type == parser.TokenNewline {
			line++
		}
		prevEnd = tok.End.Offset
	}
}

const c06URI = "file:///c06/doc.journal"

func c06Budget(n int) time.Duration {
	return 500*time.Millisecond + time.Duration(n)*20*time.Microsecond
}

// guarded runs f under a watchdog. A request that does not return keeps its
// goroutine busy for ever, so on a hang the case is recorded and the process
// ends (the driver reports the violation); no goroutine is spawned for the
// watchdog, which would disturb the goroutine-count quiescence test.
var c06Current *C06Case

func guarded(what string, n int, f func()) (ds []ev.Discrepancy) {
	limit := 10*time.Second + 4*c06Budget(n)
	cur := c06Current
	timer := time.AfterFunc(limit, func() {
		d := []ev.Discrepancy{ev.D("c06.hang", "%s did not return within %v on %d bytes", what, limit, n)}
		if cur != nil {
			recC06.Fail("c06", cur, d)
		}
		recC06.Flush()
		fmt.Printf("HANG: %s\n", d[0].Detail)
		if f := os.Getenv("VERIF_REPLAY"); f != "" && os.Getenv("VERIF_OUT") != "" {
			// a hanging replay still has to report its discrepancy
			b, _ := json.MarshalIndent(map[string]any{"file": f, "property": "C06", "check": "c06", "discrepancies": d}, "", " ")
			_ = os.WriteFile(filepath.Join(os.Getenv("VERIF_OUT"), "replay_result.json"), b, 0o644)
		}
		os.Exit(1)
	})
	defer timer.Stop()
	c0 := cpuNow()
	if err := lspx.Guard(f); err != nil {
		ds = append(ds, ev.D("c06.panic", "%s: %v", what, err))
	}
	if used := cpuNow() - c0; used > c06Budget(n) && len(ds) == 0 {
		// the process' CPU time also counts the collector and whatever else runs beside the request:
		// time that belongs to the input is there again when the same call is made again
		// (only for a modest excess: a call that is slow once and then answered from a cache must
		// not be excused by its repetitions)
		for rep := 0; rep < 2 && used > c06Budget(n) && used <= 4*c06Budget(n); rep++ {
			c1 := cpuNow()
			_ = lspx.Guard(f)
			if again := cpuNow() - c1; again < used {
				used = again
			}
		}
		if used > c06Budget(n) {
			ds = append(ds, ev.D("c06.time", "%s used %v of CPU on %d bytes (least of up to three calls; budget %v = 0.5 s + 20 us per byte)", what, used, n, c06Budget(n)))
		}
	}
	return ds
}

// c06Positions picks cursor positions: all of them for small documents, boundary and sampled ones otherwise.
func c06Positions(content string, seed int) []refclient.Pos {
	lines := strings.Split(content, "\n")
	var out []refclient.Pos
	total := 0
	for _, l := range lines {
		total += len(l) + 1
	}
	if total <= 120 {
		for li, l := range lines {
			for ch := 0; ch <= utf8.RuneCountInString(l)+1; ch++ {
				out = append(out, refclient.Pos{Line: li, Char: ch})
			}
		}
		out = append(out, refclient.Pos{Line: len(lines) + 2, Char: 0})
		return out
	}
	x := uint32(seed*2654435761 + 12345)
	next := func(n int) int {
		x ^= x << 13
		x ^= x >> 17
		x ^= x << 5
		if n <= 0 {
			return 0
		}
		return int(x % uint32(n))
	}
	for i := 0; i < 24; i++ {
		li := next(len(lines))
		out = append(out, refclient.Pos{Line: li, Char: next(len(lines[li]) + 2)})
	}
	out = append(out, refclient.Pos{Line: 0, Char: 0}, refclient.Pos{Line: len(lines) - 1, Char: len(lines[len(lines)-1])},
		refclient.Pos{Line: len(lines) + 5, Char: 3}, refclient.Pos{Line: 0, Char: 1 << 20}, refclient.Pos{Line: 1 << 20, Char: 1 << 20})
	return out
}

func c06Check(c *C06Case) []ev.Discrepancy {
	c06Current = c
	if c.ScaleUnit != "" {
		return c06ScaleCheck(c)
	}
	content := c.content()
	n := len(content)
	var ds []ev.Discrepancy
	ds = append(ds, guarded("lexer", n, func() { ds = append(ds, lexerInvariants(content)...) })...)
	if len(ds) > 0 {
		return ds
	}
	h, err := lspx.New(lspx.Options{})
	if err != nil {
		return []ev.Discrepancy{ev.D("c06.harness", "%v", err)}
	}
	ds = append(ds, guarded("didOpen + diagnostics", n, func() {
		_ = h.Open(c06URI, content)
		if qerr := h.Quiesce(); qerr != nil {
			panic(qerr)
		}
	})...)
	if len(ds) > 0 {
		return ds
	}
	ctx := context.Background()
	whole := []struct {
		name string
		f    func()
	}{
		{"formatting", func() { _, _ = h.S.Format(ctx, &protocol.DocumentFormattingParams{TextDocument: tdi(c06URI)}) }},
		{"documentSymbol", func() { _, _ = h.S.DocumentSymbol(ctx, &protocol.DocumentSymbolParams{TextDocument: tdi(c06URI)}) }},
		{"workspaceSymbol", func() { _, _ = h.S.WorkspaceSymbol(ctx, &protocol.WorkspaceSymbolParams{Query: "a"}) }},
		{"foldingRange", func() {
			_, _ = h.S.FoldingRanges(ctx, &protocol.FoldingRangeParams{TextDocumentPositionParams: tdpp(c06URI, refclient.Pos{})})
		}},
		{"documentLink", func() { _, _ = h.S.DocumentLink(ctx, &protocol.DocumentLinkParams{TextDocument: tdi(c06URI)}) }},
		{"semanticTokens/full", func() { _, _ = h.S.SemanticTokensFull(ctx, &protocol.SemanticTokensParams{TextDocument: tdi(c06URI)}) }},
		{"semanticTokens/delta", func() {
			_, _ = h.S.SemanticTokensFullDelta(ctx, &protocol.SemanticTokensDeltaParams{TextDocument: tdi(c06URI), PreviousResultID: "1"})
		}},
		{"semanticTokens/range", func() {
			_, _ = h.S.SemanticTokensRange(ctx, &protocol.SemanticTokensRangeParams{TextDocument: tdi(c06URI), Range: protocol.Range{Start: protocol.Position{Line: 1}, End: protocol.Position{Line: 3, Character: 7}}})
		}},
	}
	for _, w := range whole {
		ds = append(ds, guarded(w.name, n, w.f)...)
		if len(ds) > 0 {
			return ds
		}
	}
	for _, pos := range c06Positions(content, c.PosSeed) {
		tp := tdpp(c06URI, pos)
		at := fmt.Sprintf(" at %d:%d", pos.Line, pos.Char)
		reqs := []struct {
			name string
			f    func()
		}{
			{"completion", func() { _, _ = h.S.Completion(ctx, &protocol.CompletionParams{TextDocumentPositionParams: tp}) }},
			{"completion(:)", func() {
				_, _ = h.S.Completion(ctx, &protocol.CompletionParams{TextDocumentPositionParams: tp, Context: &protocol.CompletionContext{TriggerKind: protocol.CompletionTriggerKindTriggerCharacter, TriggerCharacter: ":"}})
			}},
			{"hover", func() { _, _ = h.S.Hover(ctx, &protocol.HoverParams{TextDocumentPositionParams: tp}) }},
			{"definition", func() { _, _ = h.S.Definition(ctx, &protocol.DefinitionParams{TextDocumentPositionParams: tp}) }},
			{"references", func() {
				_, _ = h.S.References(ctx, &protocol.ReferenceParams{TextDocumentPositionParams: tp, Context: protocol.ReferenceContext{IncludeDeclaration: true}})
			}},
			{"prepareRename", func() { _, _ = h.S.PrepareRename(ctx, &protocol.PrepareRenameParams{TextDocumentPositionParams: tp}) }},
			{"rename", func() { _, _ = h.S.Rename(ctx, &protocol.RenameParams{TextDocumentPositionParams: tp, NewName: "x:y"}) }},
			{"inlineCompletion", func() {
				_, _ = h.S.InlineCompletion(ctx, mustJSON(map[string]any{"textDocument": map[string]any{"uri": c06URI}, "position": map[string]any{"line": pos.Line, "character": pos.Char}, "context": map[string]any{"triggerKind": 1}}))
			}},
		}
		for _, r := range reqs {
			ds = append(ds, guarded(r.name+at, n, r.f)...)
			if len(ds) > 0 {
				return ds
			}
		}
	}
	// an edit keeps working too
	ds = append(ds, guarded("didChange", n, func() {
		_ = h.Change(c06URI, 2, []refclient.Change{{Range: &refclient.Range{Start: refclient.Pos{Line: 0, Char: 1}, End: refclient.Pos{Line: 1, Char: 2}}, Text: "x\n"}})
		_ = h.Quiesce()
		_ = h.Close(c06URI)
	})...)
	return ds
}

// ---- scaling ----

func minCPU(reps int, f func()) time.Duration {
	best := time.Duration(1 << 62)
	for i := 0; i < reps; i++ {
		runtime.GC()
		c0 := cpuNow()
		f()
		if d := cpuNow() - c0; d < best {
			best = d
		}
	}
	return best
}

func alphaIndex(i int) string {
	s := ""
	for {
		s = string(rune('A'+i%26)) + s
		i = i/26 - 1
		if i < 0 {
			return s
		}
	}
}

func c06ScaleCheck(c *C06Case) []ev.Discrepancy {
	build := func(k int) string {
		if strings.Contains(c.ScaleUnit, "%a") {
			var sb strings.Builder
			sb.WriteString(c.ScalePre)
			for i := 0; i < k; i++ {
				if i > 0 {
					sb.WriteString(c.ScaleSep)
				}
				sb.WriteString(strings.ReplaceAll(c.ScaleUnit, "%a", alphaIndex(i)))
			}
			return sb.String() + c.ScalePost + "\n"
		}
		return c.ScalePre + strings.TrimSuffix(strings.Repeat(c.ScaleUnit+c.ScaleSep, k), c.ScaleSep) + c.ScalePost + "\n"
	}
	small, big := build(c.ScaleK), build(4*c.ScaleK)
	work := func(text string) func() {
		return func() {
			h, err := lspx.New(lspx.Options{})
			if err != nil {
				return
			}
			_ = h.Open(c06URI, text)
			_ = h.Quiesce()
			ctx := context.Background()
			_, _ = h.S.Format(ctx, &protocol.DocumentFormattingParams{TextDocument: tdi(c06URI)})
			_, _ = h.S.SemanticTokensFull(ctx, &protocol.SemanticTokensParams{TextDocument: tdi(c06URI)})
			_, _ = h.S.Hover(ctx, &protocol.HoverParams{TextDocumentPositionParams: tdpp(c06URI, refclient.Pos{Line: 0, Char: 5})})
			_, _ = h.S.Completion(ctx, &protocol.CompletionParams{TextDocumentPositionParams: tdpp(c06URI, refclient.Pos{Line: 0, Char: 5})})
			_, _ = h.S.FoldingRanges(ctx, &protocol.FoldingRangeParams{TextDocumentPositionParams: tdpp(c06URI, refclient.Pos{})})
			_, _ = h.S.DocumentSymbol(ctx, &protocol.DocumentSymbolParams{TextDocument: tdi(c06URI)})
			// completion at the end of the last line (everything typed before the cursor is the query)
			last := strings.Count(text, "\n") - 1
			if last >= 0 {
				_, _ = h.S.Completion(ctx, &protocol.CompletionParams{TextDocumentPositionParams: tdpp(c06URI, refclient.Pos{Line: last, Char: 1 << 30})})
			}
			_ = h.Close(c06URI)
		}
	}
	var ds []ev.Discrepancy
	var t1, t4 time.Duration
	ds = append(ds, guarded("scaling run", len(big)*8, func() {
		t1 = minCPU(5, work(small))
		t4 = minCPU(5, work(big))
	})...)
	if len(ds) > 0 {
		return ds
	}
	if surveyOn() {
		fmt.Printf("SCALE %-40.40q k=%-5d t1=%-12v t4=%-12v x%.1f\n", c.ScaleUnit, c.ScaleK, t1, t4, float64(t4)/float64(max(t1, 1)))
	}
	// linear growth is x4, quadratic x16; the verdict needs a measurable base
	// (a base of a few milliseconds is dominated by allocation and collection noise: the larger run must
	// itself be substantial for the ratio to mean anything)
	if t1 >= 4*time.Millisecond && t4 > 10*t1 && t4 >= 60*time.Millisecond {
		ds = append(ds, ev.D("c06.scaling", "unit %q repeated %d times (%d bytes) costs %v of CPU, repeated %d times (%d bytes) %v: x%.1f for x4 input (linear = 4, quadratic = 16)", c.ScaleUnit+c.ScaleSep, c.ScaleK, len(small), t1, 4*c.ScaleK, len(big), t4, float64(t4)/float64(t1)))
	}
	return ds
}

// ---- generators ----

var hostile = []string{"\xff", "\xc3", "\xe2\x82", "\xf0\x9f\x98", "\x00", "\x01", "\x7f", "\r", "\r\n", "\n", "\t", "\"", "(", "[", ")", "]", "((((", "@", "@@", "=", "==", "|", "*", "!", ";", ":", "::",
	"1E9999999", "1E-99999999", "1e400", "9999999999999999999999999999999", "0.00000000000000000000000000001", "1,2,3.4.5", "-", "+", "--", "$", "€", "💰", "\u200b", "\ufeff", " ",
	"2024-01-15", "2024-13-45", "0000-00-00", "99999-1-1", "1/2", "include ", "account ", "commodity ", "P ", "Y ", "D ", "Y 99999999999999999999", "alias ", "apply account ", "comment\n", "end comment\n",
	"format ", "  ", "    ", "{*,*}", "{*,*}{*,*}{*,*}{*,*}{*,*}{*,*}{*,*}{*,*}", "{0,1,2,3,4,5,6,7,8,9,a,b,c,d,e,f}", "**/", "a:b", "expenses:food", "assets:cash  ", "EUR", "USD 1", "1 USD", "k:v", ", ", "tag:", "~ monthly", "= expenses", "\t\t"}

var hostileNumRe = regexp.MustCompile(`[0-9][0-9.,]*`)

// wideGlobRe matches an include directive whose glob leaves the document's
// directory tree (rooted at "/" or "~", or climbing with ".."): expanding it
// walks the file system, which takes time proportional to the disk, not to the
// document (open finding C06-F2). Such inputs are neutralised in the main
// campaign and replayed separately.
var wideGlobRe = regexp.MustCompile(`(?m)^include[ \t]*([/~][^\n]*[*?\[]|[^\n]*\.\.[^\n]*[*?\[]|[^\n]*[*?\[][^\n]*\.\.|[^\n]*<->)`)

func neutraliseWideGlobs(content string) (string, bool) {
	if !wideGlobRe.MatchString(content) {
		return content, false
	}
	return wideGlobRe.ReplaceAllStringFunc(content, func(l string) string { return "inklude" + l[len("include"):] }), true
}

func genC06Bytes(t *rapid.T, p *gen.Profile, valid []string) string {
	switch rapid.IntRange(0, 6).Draw(t, "shape") {
	case 6:
		// a valid journal whose numbers are replaced by hostile ones
		pools := gen.GenPools(t, p)
		base := m.Render(gen.GenJournal(t, p, pools, gen.JournalOpts{MinEntries: 1, MaxEntries: 4, TxOnly: true, Tx: gen.TxOpts{MaxPostings: 4, MaxScale: 2, MaxDigits: 4}})).Text
		nums := []string{"1E9999999", "1E-99999999", "1e400", "1E255", "1E256", "1e-255", "9999999999999999999999999999999999999999", "0." + strings.Repeat("0", 300) + "1", strings.Repeat("9", 5000), "1E+0000000000000000000000001", "1e99999999999999999999", "0E9999999", "1.5E3", "1,5e-3", "1e", "1e+", "1E1E1", "٣", "１２"}
		return hostileNumRe.ReplaceAllStringFunc(base, func(x string) string {
			if rapid.IntRange(0, 2).Draw(t, "swap") == 0 {
				return rapid.SampledFrom(nums).Draw(t, "num")
			}
			return x
		})
	case 0:
		// soup of hostile atoms
		n := rapid.IntRange(0, 60).Draw(t, "n")
		var sb strings.Builder
		for i := 0; i < n; i++ {
			sb.WriteString(rapid.SampledFrom(hostile).Draw(t, "atom"))
		}
		return sb.String()
	case 1:
		// raw bytes
		return string(rapid.SliceOfN(rapid.Byte(), 0, 200).Draw(t, "raw"))
	case 2:
		// one very long line
		unit := rapid.SampledFrom([]string{"A1 ", "a:b ", "1 ", "; ", "k:v, ", "\"", "(", "x", "é", "€1 ", "- ", "@ ", "= "}).Draw(t, "unit")
		k := rapid.SampledFrom([]int{400, 2000, 8000}).Draw(t, "k")
		pre := rapid.SampledFrom([]string{"", "2024-01-01 ", "    ", "    a:b  ", "account ", "; "}).Draw(t, "pre")
		return pre + strings.Repeat(unit, k) + "\n"
	default:
		// byte-level mutations of a valid journal
		base := rapid.SampledFrom(valid).Draw(t, "base")
		if rapid.Bool().Draw(t, "gen") {
			pools := gen.GenPools(t, p)
			base = m.Render(gen.GenJournal(t, p, pools, gen.JournalOpts{MinEntries: 1, MaxEntries: 6, Directives: true, TopComments: true, Tx: gen.TxOpts{MaxPostings: 4, MaxScale: 4, MaxDigits: 8}})).Text
		}
		b := []byte(base)
		nm := rapid.IntRange(1, 6).Draw(t, "nmut")
		for i := 0; i < nm; i++ {
			at := 0
			if len(b) > 0 {
				at = rapid.IntRange(0, len(b)).Draw(t, "at")
			}
			switch rapid.IntRange(0, 5).Draw(t, "mut") {
			case 0:
				ins := rapid.SampledFrom(hostile).Draw(t, "ins")
				b = append(b[:at:at], append([]byte(ins), b[at:]...)...)
			case 1:
				if at < len(b) {
					e := at + rapid.IntRange(1, 20).Draw(t, "dl")
					if e > len(b) {
						e = len(b)
					}
					b = append(b[:at:at], b[e:]...)
				}
			case 2:
				if at < len(b) {
					b[at] = rapid.Byte().Draw(t, "byte")
				}
			case 3:
				b = b[:at]
			case 4:
				if at < len(b) {
					e := at + rapid.IntRange(1, 40).Draw(t, "cp")
					if e > len(b) {
						e = len(b)
					}
					b = append(b[:e:e], append(append([]byte{}, b[at:e]...), b[e:]...)...)
				}
			default:
				ins := rapid.SampledFrom(hostile).Draw(t, "ins2")
				if at < len(b) {
					b[at] = ins[0]
				}
			}
		}
		return string(b)
	}
}

func loadValidJournals() []string {
	var out []string
	for _, dir := range []string{"/repo/testdata/valid", "/repo/testdata/invalid", filepath.Join(verifDir(), "corpus")} {
		fs, _ := os.ReadDir(dir)
		for _, f := range fs {
			if b, err := os.ReadFile(filepath.Join(dir, f.Name())); err == nil && len(b) < 65536 {
				out = append(out, string(b))
			}
		}
	}
	if len(out) == 0 {
		out = []string{"2024-01-15 * shop\n    expenses:food  10.50 EUR\n    assets:cash\n"}
	}
	sort.Strings(out)
	return out
}

func verifDir() string {
	if d := os.Getenv("VERIF_DIR"); d != "" {
		return d
	}
	return "/verif"
}

var recC06 = ev.New("C06")

func c06Nontrivial(content string) bool {
	if !utf8.ValidString(content) {
		return true
	}
	for _, l := range strings.Split(content, "\n") {
		if len(l) > 1024 {
			return true
		}
	}
	_, errs := parser.Parse(content)
	if len(errs) > 0 {
		return true
	}
	l := parser.NewLexer(content)
	for n := 0; n < 20; n++ {
		if l.Next().Type == parser.TokenEOF {
			return false
		}
	}
	return true
}

func TestC06(t *testing.T) {
	defer recC06.Flush()
	valid := loadValidJournals()
	rapid.Check(t, func(t *rapid.T) {
		content := genC06Bytes(t, profileFor(recC06), valid)
		if len(content) > 65536 {
			content = content[:65536]
		}
		if disabled("include.wide-glob") {
			var changed bool
			if content, changed = neutraliseWideGlobs(content); changed {
				recC06.Excluded("include.wide-glob")
			}
		}
		c := newC06Case(content, rapid.IntRange(0, 1<<20).Draw(t, "posseed"))
		ds := c06Check(c)
		nt := c06Nontrivial(content)
		var cls []string
		if !utf8.ValidString(content) {
			cls = append(cls, "invalid-utf8")
		}
		if len(content) > 4096 {
			cls = append(cls, "long")
		}
		recC06.Case(nt, []byte(content), cls...)
		if nt && recC06.WantSample() {
			recC06.Sample(c.Preview)
		}
		report(t, recC06, "c06", c, ds)
	})
}

var c06ScaleUnits = []struct{ unit, sep, pre, post string }{
	{"A1", " ", "", ""}, {"a:b", " ", "    ", ""}, {"x", "", "", ""}, {"2024-01-01 x\n    a:b  1 EUR\n    c:d", "\n", "", ""}, {"; k:v", ", ", "", ""}, {"1", " ", "    a:b  ", ""},
	{"\"", "", "", ""}, {"(", "", "    ", ""}, {"account a:b", "\n", "", ""}, {"é", " ", "", ""}, {"@", " ", "    a:b  1 ", ""}, {"=", "", "", ""}, {"    a:b  1 EUR", "\n", "2024-01-01 x\n", ""},
	{"include x.journal", "\n", "", ""}, {"k:v", ",", "2024-01-01 x ;", ""}, {"1,000.00 EUR", " ", "    a:b  ", ""}, {"[a:b]", " ", "    ", ""}, {"|", " ", "2024-01-01 ", ""},
	// shapes pointed out by an independent review of the unchanged code
	{"(", "", "    ", ":a"}, // every "(" looks ahead for the colon of a virtual account
	{"1", "", "commodity 1,000.00 USD\n2024-01-01 x\n    a:b  ", " USD\n    c:d"}, // one very long number, written with group marks
	{"account d:%a\n2024-01-01 x\n    u:%a  1 EUR\n    v:%a", "\n", "", ""},       // many declared accounts x many postings to undeclared ones
	{" P ", "\n", "", ""},                                                            // indented lines that look like directives (folding)
	{"a :1", ",", "2024-01-01 x ; ", ""},                                             // comment pieces that are almost tags
	{"    a:b  1 %a", "\n", "2024-01-01 x\n", ""},                                    // one transaction out of balance in many commodities
	{"account acc:%a", "\n", "", "\n2024-01-01 x\n    " + strings.Repeat("q", 4000)}, // many candidates x a long line before the cursor
	{"{*,*}", "", "include ", ""},                                                    // brace alternatives: every combination is a pattern of its own
	{"**/", "", "include ", "*.journal"},                                             // any-depth segments
	{"x,", "", "include {", "y}{0,1,2,3,4,5,6,7,8,9}{0,1,2,3,4,5,6,7,8,9}*.journal"}, // many alternatives in one brace group, times those of the others
	{" | a:b", "", "2024-01-01 shop", ""},                                            // a note with many "|"
	{"a:|", "", "    ", ""},                                                          // "|" on a posting line
}

// TestC06Scale: the cost of a unit repeated 4k times must stay within x10 of k times.
func TestC06Scale(t *testing.T) {
	defer recC06.Flush()
	shard, shards := envInt("VERIF_SHARD", 0), envInt("VERIF_SHARDS", 1)
	ks := []int{2000}
	if tier() == "thorough" {
		ks = []int{1000, 3000}
	}
	for i, u := range c06ScaleUnits {
		if i%shards != shard {
			continue
		}
		for _, k := range ks {
			kk := k
			for (len(u.unit)+len(u.sep))*4*kk > 65000 {
				kk /= 2
			}
			c := &C06Case{ScaleUnit: u.unit, ScaleSep: u.sep, ScalePre: u.pre, ScalePost: u.post, ScaleK: kk, Preview: u.pre + u.unit + u.sep + "..." + u.post}
			ds := c06ScaleCheck(c)
			recC06.Case(true, mustJSON(c), "scaling")
			if len(ds) > 0 {
				recC06.Fail("c06", c, ds)
				t.Fatalf("[%s] %s", ds[0].Assertion, ds[0].Detail)
			}
		}
	}
}

func init() {
	replayers["c06"] = func(raw json.RawMessage) ([]ev.Discrepancy, error) {
		var c C06Case
		if err := json.Unmarshal(raw, &c); err != nil {
			return nil, err
		}
		return c06Check(&c), nil
	}
}
