package checks

// C07 — a syntax error stays contained in its own entry.
// Oracle: metamorphic — parse and diagnostics of the intact journal J versus
// the journal J' in which one entry was damaged; every other entry must be
// recognised with identical content at positions shifted by the lines
// inserted or removed, and syntax errors must lie on the damaged entry.

import (
	"encoding/json"
	"fmt"
	"reflect"
	"sort"
	"strings"
	"testing"
	"unicode"

	"go.lsp.dev/protocol"
	"pgregory.net/rapid"

	"github.com/juev/hledger-lsp/internal/ast"
	"github.com/juev/hledger-lsp/internal/parser"
	"github.com/juev/hledger-lsp/verifharness/ev"
	"github.com/juev/hledger-lsp/verifharness/gen"
	"github.com/juev/hledger-lsp/verifharness/lspx"
	m "github.com/juev/hledger-lsp/verifharness/model"
)

type DamageOp struct {
	Kind string `json:"kind"` // overwrite | truncate | delete | duplicate | swap | insert
	Line int    `json:"line"` // relative to the entry's first line
	Col  int    `json:"col"`  // byte column (clamped)
	Len  int    `json:"len"`
	Text string `json:"text"`
	Word int    `json:"word,omitempty"` // >0: the column is the start of the Word-th blank-separated word of the line (wrapping)
}

type C07Case struct {
	Journal *m.Journal `json:"journal"`
	Entry   int        `json:"entry"`
	Ops     []DamageOp `json:"ops"`
	// Orphan lets the damage take away or indent the entry's first line (header deleted, swapped
	// below a posting, blanked). It only applies when an empty line (or the start of the file)
	// stands before the entry: the empty line ends the entry above, so the orphaned lines are
	// still the damaged entry's own.
	Orphan bool `json:"orphan,omitempty"`
}

// applyDamage returns the damaged lines of the entry.
func applyDamage(lines []string, ops []DamageOp) []string {
	return applyDamageOpt(lines, ops, false)
}

func applyDamageOpt(lines []string, ops []DamageOp, orphan bool) []string {
	out := append([]string{}, lines...)
	for _, op := range ops {
		if len(out) == 0 {
			break
		}
		li := op.Line % len(out)
		l := out[li]
		col := op.Col
		if col > len(l) {
			col = len(l)
		}
		if op.Word > 0 {
			var starts []int
			for i := 0; i < len(l); i++ {
				if l[i] != ' ' && l[i] != '\t' && (i == 0 || l[i-1] == ' ' || l[i-1] == '\t') {
					starts = append(starts, i)
				}
			}
			starts = append(starts, len(l))
			col = starts[(op.Word-1)%len(starts)]
		}
		// stay on rune boundaries so the text remains valid UTF-8 (invalid bytes are C06's domain)
		for col > 0 && col < len(l) && l[col]&0xC0 == 0x80 {
			col--
		}
		switch op.Kind {
		case "overwrite":
			end := col + op.Len
			if end > len(l) {
				end = len(l)
			}
			for end < len(l) && l[end]&0xC0 == 0x80 {
				end++
			}
			out[li] = l[:col] + op.Text + l[end:]
		case "truncate":
			out[li] = l[:col]
		case "insert":
			out[li] = l[:col] + op.Text + l[col:]
		case "delete":
			if li != 0 || (orphan && len(out) > 1) {
				out = append(out[:li:li], out[li+1:]...)
			}
		case "duplicate":
			out = append(out[:li+1:li+1], append([]string{l}, out[li+1:]...)...)
		case "swap":
			lj := (li + 1) % len(out)
			if (li != 0 && lj != 0) || orphan {
				out[li], out[lj] = out[lj], out[li]
			}
		}
	}
	// the entry must still begin at column 0 (an indented first line would legitimately
	// belong to the entry before it) and must not become empty
	// a damaged include line whose glob would now leave the document's directory (the server trims
	// blanks of every kind in front of the path, so "sub/**" with "sub" overwritten is "/**") walks
	// the file system: the open finding C06-F2, not what is examined here
	for i, l := range out {
		if wideGlobAfterDamage(l) {
			out[i] = "inklude" + l[len("include"):]
			if onWideGlobDamage != nil {
				onWideGlobDamage()
			}
		}
	}
	if orphan && len(out) > 0 {
		return out
	}
	if len(out) == 0 || out[0] == "" || out[0][0] == ' ' || out[0][0] == '\t' {
		first := lines[0]
		if len(out) == 0 {
			out = []string{first}
		} else {
			out[0] = first[:1] + strings.TrimLeft(out[0], " \t")
		}
	}
	return out
}

var onWideGlobDamage func()

func wideGlobAfterDamage(line string) bool {
	if !strings.HasPrefix(line, "include") {
		return false
	}
	rest := line[len("include"):]
	if !strings.ContainsAny(rest, "*?[{<") {
		return false
	}
	cleaned := strings.Map(func(r rune) rune {
		if r <= ' ' || r == 0x7f || r == 0xfeff || unicode.IsSpace(r) || !unicode.IsPrint(r) || r == '"' || r == '\'' {
			return -1
		}
		return r
	}, rest)
	return strings.HasPrefix(cleaned, "/") || strings.HasPrefix(cleaned, "~") || strings.Contains(cleaned, "..")
}

// rebase zeroes offsets and makes line numbers relative to base in any ast value.
func rebase(v reflect.Value, base int) {
	switch v.Kind() {
	case reflect.Ptr, reflect.Interface:
		if !v.IsNil() {
			if v.Kind() == reflect.Interface {
				// interface holding a struct value: copy, rebase, store back
				c := reflect.New(v.Elem().Type()).Elem()
				c.Set(v.Elem())
				rebase(c, base)
				v.Set(c)
			} else {
				rebase(v.Elem(), base)
			}
		}
	case reflect.Struct:
		if v.Type() == reflect.TypeOf(ast.Position{}) {
			p := v.Interface().(ast.Position)
			if p.Line != 0 {
				p.Line -= base
			}
			p.Offset = 0
			v.Set(reflect.ValueOf(p))
			return
		}
		for i := 0; i < v.NumField(); i++ {
			if v.Field(i).CanSet() {
				rebase(v.Field(i), base)
			}
		}
	case reflect.Slice:
		for i := 0; i < v.Len(); i++ {
			rebase(v.Index(i), base)
		}
	case reflect.Map:
		// maps in the tree hold strings only
	}
}

type entryTree struct {
	Kind string
	Node any
}

// treesByLine indexes the top-level nodes of a parsed journal by their 1-based start line.
func treesByLine(j *ast.Journal) map[int]entryTree {
	out := map[int]entryTree{}
	for i := range j.Transactions {
		t := j.Transactions[i]
		out[t.Range.Start.Line] = entryTree{"transaction", &t}
	}
	for i := range j.Directives {
		d := j.Directives[i]
		out[d.GetRange().Start.Line] = entryTree{"directive", &d}
	}
	for i := range j.Includes {
		d := j.Includes[i]
		out[d.Range.Start.Line] = entryTree{"include", &d}
	}
	for i := range j.Comments {
		c := j.Comments[i]
		out[c.Range.Start.Line] = entryTree{"comment", &c}
	}
	return out
}

func canon(et entryTree, base int) string {
	v := reflect.ValueOf(et.Node)
	cp := reflect.New(v.Elem().Type())
	cp.Elem().Set(v.Elem())
	// deep copy through JSON-free reflection is not needed: rebase works on a copy of the
	// top struct, but slices are shared; copy them via fmt after rebasing a deep clone
	clone := deepClone(cp.Elem())
	rebase(clone, base)
	b, err := json.Marshal(clone.Interface())
	if err != nil {
		return fmt.Sprintf("%s <unprintable: %v>", et.Kind, err)
	}
	return et.Kind + " " + string(b)
}

func deepClone(v reflect.Value) reflect.Value {
	switch v.Kind() {
	case reflect.Ptr:
		if v.IsNil() {
			return v
		}
		n := reflect.New(v.Elem().Type())
		n.Elem().Set(deepClone(v.Elem()))
		return n
	case reflect.Interface:
		if v.IsNil() {
			return v
		}
		n := reflect.New(v.Type()).Elem()
		n.Set(deepClone(v.Elem()))
		return n
	case reflect.Struct:
		n := reflect.New(v.Type()).Elem()
		n.Set(v)
		for i := 0; i < v.NumField(); i++ {
			if n.Field(i).CanSet() {
				n.Field(i).Set(deepClone(v.Field(i)))
			}
		}
		return n
	case reflect.Slice:
		if v.IsNil() {
			return v
		}
		n := reflect.MakeSlice(v.Type(), v.Len(), v.Len())
		for i := 0; i < v.Len(); i++ {
			n.Index(i).Set(deepClone(v.Index(i)))
		}
		return n
	case reflect.Map:
		if v.IsNil() {
			return v
		}
		n := reflect.MakeMap(v.Type())
		for _, k := range v.MapKeys() {
			n.SetMapIndex(k, deepClone(v.MapIndex(k)))
		}
		return n
	}
	return v
}

func openDiags(text string) ([]protocol.Diagnostic, error) {
	h, err := lspx.New(lspx.Options{})
	if err != nil {
		return nil, err
	}
	return h.OpenAndWait("file:///c07/doc.journal", text)
}

func c07Check(c *C07Case) (ds []ev.Discrepancy, nontrivial bool, r *m.Rendered) {
	r = m.Render(c.Journal)
	nl := c.Journal.NL
	if nl == "" {
		nl = "\n"
	}
	e := c.Entry
	s0, e0 := r.EntryLine[e], r.EntryEnd[e] // 0-based inclusive
	orphan := c.Orphan && (s0 == 0 || r.Lines[s0-1] == "")
	dmg := applyDamageOpt(r.Lines[s0:e0+1], c.Ops, orphan)
	var lines2 []string
	lines2 = append(lines2, r.Lines[:s0]...)
	lines2 = append(lines2, dmg...)
	lines2 = append(lines2, r.Lines[e0+1:]...)
	delta := len(dmg) - (e0 - s0 + 1)
	text2 := strings.Join(lines2, nl) + nl
	j1, errs1 := parser.Parse(r.Text)
	j2, errs2 := parser.Parse(text2)
	feats := featList(r.Feats)
	add := func(assertion, format string, a ...any) {
		if len(ds) < 20 {
			ds = append(ds, ev.Discrepancy{Assertion: assertion, Features: feats, Detail: fmt.Sprintf("entry %d (lines %d..%d) damaged to %q: ", e, s0+1, e0+1, strings.Join(dmg, "\\n")) + fmt.Sprintf(format, a...)})
		}
	}
	if len(errs1) > 0 {
		add("c07.precondition", "the intact journal has syntax errors: %v", errs1)
		return ds, false, r
	}
	t1, t2 := treesByLine(j1), treesByLine(j2)
	e2end := s0 + len(dmg) - 1 // last damaged line, 0-based
	for ei := range c.Journal.Entries {
		if ei == e {
			continue
		}
		l1 := r.EntryLine[ei] + 1 // 1-based
		l2 := l1
		if ei > e {
			l2 += delta
		}
		n1, ok1 := t1[l1]
		if !ok1 {
			continue // blank-only or unrepresented entry
		}
		n2, ok2 := t2[l2]
		if !ok2 {
			add("c07.entry.lost", "entry %d (%s at line %d: %q) is no longer recognised at line %d", ei, n1.Kind, l1, r.Lines[l1-1], l2)
			continue
		}
		a, b := canon(n1, l1), canon(n2, l2)
		if a != b {
			add("c07.entry.changed", "entry %d (line %d %q) is understood differently:\n  intact:  %.500s\n  damaged: %.500s", ei, l1, r.Lines[l1-1], a, b)
		}
	}
	// syntax errors only on lines of the damaged entry
	for _, pe := range errs2 {
		ln := pe.Pos.Line - 1
		if ln < s0 || ln > e2end {
			// an error positioned on the end-of-input token right after a damaged last entry belongs to it
			if e == len(c.Journal.Entries)-1 && ln >= e2end {
				continue
			}
			add("c07.error.outside", "syntax error %q at line %d, outside the damaged entry (lines %d..%d): %q", pe.Message, ln+1, s0+1, e2end+1, lineOr(lines2, ln))
		}
	}
	// own diagnostics of the other entries are unchanged
	if len(ds) == 0 {
		d1, err1 := openDiags(r.Text)
		d2, err2 := openDiags(text2)
		if err1 != nil || err2 != nil {
			add("c07.harness", "%v %v", err1, err2)
			return ds, false, r
		}
		key := func(d protocol.Diagnostic, shift int) string {
			return fmt.Sprintf("%v|%s|%d:%d-%d:%d", d.Code, d.Message, int(d.Range.Start.Line)-shift, d.Range.Start.Character, int(d.Range.End.Line)-shift, d.Range.End.Character)
		}
		// undeclared-account/commodity warnings depend on the declarations in force: when the
		// damage changed the set of declarations they legitimately change elsewhere
		declsChanged := declSet(j1) != declSet(j2)
		skip := func(d protocol.Diagnostic) bool {
			return declsChanged && (d.Code == "UNDECLARED_ACCOUNT" || d.Code == "UNDECLARED_COMMODITY")
		}
		var k1, k2 []string
		for _, d := range d1 {
			ln := int(d.Range.Start.Line)
			if (ln >= s0 && ln <= e0) || skip(d) {
				continue
			}
			k1 = append(k1, key(d, 0))
		}
		for _, d := range d2 {
			ln := int(d.Range.Start.Line)
			if (ln >= s0 && ln <= e2end) || skip(d) {
				continue
			}
			shift := 0
			if ln > e2end {
				shift = delta
			}
			if d.Code == nil || d.Code == "" {
				if e == len(c.Journal.Entries)-1 && ln >= e2end {
					continue
				}
				// a diagnostic without code is a syntax error, or the verdict on an include directive
				// (file not found ...), which the intact text has on the same entry
				if !contains(k1, key(d, shift)) {
					add("c07.diagnostic.outside", "syntax diagnostic %q on line %d, outside the damaged entry", d.Message, ln+1)
					continue
				}
			}
			k2 = append(k2, key(d, shift))
		}
		sort.Strings(k1)
		sort.Strings(k2)
		if strings.Join(k1, "\n") != strings.Join(k2, "\n") {
			add("c07.diagnostics.changed", "diagnostics of the other entries changed: intact %v, damaged %v", k1, k2)
		}
	}
	nontrivial = len(errs2) > 0
	if !nontrivial {
		if n1, ok := t1[s0+1]; ok {
			n2, ok2 := t2[s0+1]
			nontrivial = !ok2 || canon(n1, s0+1) != canon(n2, s0+1)
		}
	}
	return ds, nontrivial, r
}

// declSet is a canonical string of the accounts and commodities a journal declares.
func declSet(j *ast.Journal) string {
	var o []string
	for _, d := range j.Directives {
		switch v := d.(type) {
		case ast.AccountDirective:
			o = append(o, "a:"+v.Account.Name)
		case ast.CommodityDirective:
			o = append(o, "c:"+v.Commodity.Symbol)
		}
	}
	sort.Strings(o)
	return strings.Join(o, "\n")
}

func lineOr(ls []string, i int) string {
	if i >= 0 && i < len(ls) {
		return ls[i]
	}
	return "<past the end>"
}

var dmgTexts = []string{"\"", "(", "[", ")", "]", "@", "@@", "=", "==", "=*", "==* ", " =* 5 EUR", "{150 USD}", "|", "*", ";", "!", "  ", "\t", "x", "$", "-", "1.2.3,4", "abc", "é😀", "::", "2024-13-99", " ; ", "include", "account", "P", "0x", ",,", "--5", "\x01", "\x00", "\x00", "\x7f", "\x0c", "\x1b", "\u00a0", "\u2028", "\ufeff", "E9", "()", "[]", "\"\""}

func genDamage(t *rapid.T, nlines int) []DamageOp {
	n := rapid.IntRange(1, 3).Draw(t, "nops")
	var ops []DamageOp
	for i := 0; i < n; i++ {
		op := DamageOp{Kind: rapid.SampledFrom([]string{"overwrite", "overwrite", "truncate", "insert", "insert", "insert", "delete", "duplicate", "swap"}).Draw(t, "dkind"),
			Line: rapid.IntRange(0, nlines-1).Draw(t, "dline"), Col: rapid.IntRange(0, 60).Draw(t, "dcol"), Len: rapid.IntRange(0, 12).Draw(t, "dlen")}
		if rapid.IntRange(0, 3).Draw(t, "atstart") == 0 {
			op.Col = rapid.IntRange(0, 12).Draw(t, "dcol2")
		}
		if rapid.IntRange(0, 3).Draw(t, "atword") == 0 {
			op.Word = rapid.IntRange(1, 8).Draw(t, "dword")
		}
		k := rapid.IntRange(1, 3).Draw(t, "ntexts")
		for q := 0; q < k; q++ {
			op.Text += rapid.SampledFrom(dmgTexts).Draw(t, "dtext")
		}
		ops = append(ops, op)
	}
	return ops
}

var c07Opts = gen.JournalOpts{MinEntries: 3, MaxEntries: 7, Directives: true, TopComments: true,
	Tx: gen.TxOpts{MaxPostings: 4, MaxScale: 3, MaxDigits: 6}}

var recC07 = ev.New("C07")

func TestC07(t *testing.T) {
	defer recC07.Flush()
	onWideGlobDamage = func() { recC07.Excluded("include.wide-glob") }
	sv := newSurvey()
	if surveyOn() {
		defer sv.print()
	}
	rapid.Check(t, func(t *rapid.T) {
		// no Y directive and no partial dates: a default year legitimately reaches later entries
		p := &gen.Profile{Off: func(f string) bool { return f == "dir.Y" || f == "date.partial" || f == "date2.partial" || disabled(f) }, Excluded: recC07.Excluded}
		pools := gen.GenPools(t, p)
		j := gen.GenJournal(t, p, pools, c07Opts)
		for i := range j.Entries {
			// include paths stay relative to the (non-existent) directory of the document: damage to a
			// path rooted at / or ~ could produce a glob over the whole file system (C06-F2)
			if d := j.Entries[i].Dir; d != nil && d.Kind == "include" {
				d.Path = strings.TrimLeft(d.Path, "/~")
			}
		}
		// a fifth of the cases: a Y directive opens the journal and half of the transactions write their
		// dates without year; the damaged entry is a transaction of another, written year with a
		// secondary date, and the first damage falls on that secondary date. The year such a header
		// hands to its secondary date must not reach the entries below. (The Y directive itself is never
		// the damaged entry: what it says legitimately reaches later entries.)
		forced := -1
		var txs []int
		for i := range j.Entries {
			if j.Entries[i].Tx != nil {
				txs = append(txs, i)
			}
		}
		if len(txs) > 0 && !disabled("date.partial") && !disabled("dir.Y") && rapid.IntRange(0, 4).Draw(t, "yearshape") == 0 {
			y0 := rapid.IntRange(1990, 2030).Draw(t, "y0")
			forced = rapid.SampledFrom(txs).Draw(t, "yentry")
			for _, i := range txs {
				tx := j.Entries[i].Tx
				switch {
				case i == forced:
					tx.Date.Partial = false
					tx.Date.Y = y0 + rapid.SampledFrom([]int{-1, 1, 7}).Draw(t, "yoff")
					if tx.Date2 == nil {
						d2 := tx.Date
						d2.D = rapid.IntRange(1, 28).Draw(t, "d2d")
						d2.Partial = rapid.Bool().Draw(t, "d2partial")
						tx.Date2 = &d2
					}
					tx.Date2.Y = tx.Date.Y
				case rapid.Bool().Draw(t, "ypartial"):
					tx.Date.Partial, tx.Date.Y = true, y0
					if tx.Date2 != nil && tx.Date2.Partial {
						tx.Date2.Y = y0
					}
				}
			}
			j.Entries = append([]m.Entry{{Dir: &m.Directive{Kind: "Y", Year: y0}, Blank: rapid.IntRange(0, 1).Draw(t, "yblank")}}, j.Entries...)
			forced++
		}
		r := m.Render(j)
		e := rapid.IntRange(0, len(j.Entries)-1).Draw(t, "entry")
		if forced >= 0 {
			e = forced
		}
		c := &C07Case{Journal: j, Entry: e, Ops: genDamage(t, r.EntryEnd[e]-r.EntryLine[e]+1)}
		if forced >= 0 {
			at := strings.Index(r.Lines[r.EntryLine[e]], "=")
			first := DamageOp{Kind: rapid.SampledFrom([]string{"overwrite", "insert", "truncate"}).Draw(t, "ykind"), Line: 0,
				Col: at + rapid.IntRange(1, 6).Draw(t, "ycol"), Len: rapid.IntRange(1, 8).Draw(t, "ylen"), Text: rapid.SampledFrom(dmgTexts).Draw(t, "ytext")}
			c.Ops = append([]DamageOp{first}, c.Ops...)
		}
		if rapid.IntRange(0, 2).Draw(t, "orphan") == 0 {
			c.Orphan = true
			if rapid.Bool().Draw(t, "orphanop") {
				// take the first line away, or blank its start
				first := DamageOp{Kind: rapid.SampledFrom([]string{"delete", "swap", "overwrite", "insert"}).Draw(t, "okind"), Line: 0, Col: 0, Len: rapid.IntRange(1, 4).Draw(t, "olen"), Text: rapid.SampledFrom([]string{" ", "    ", "\t"}).Draw(t, "otext")}
				c.Ops = append([]DamageOp{first}, c.Ops...)
			}
		}
		ds, nt, _ := c07Check(c)
		kind := "entry:comment"
		if j.Entries[e].Tx != nil {
			kind = "entry:transaction"
		} else if j.Entries[e].Dir != nil {
			kind = "entry:directive"
		}
		cls := []string{kind}
		if forced >= 0 {
			cls = append(cls, "damaged-secondary-date-under-a-Y-directive")
		}
		for _, op := range c.Ops {
			cls = append(cls, "op:"+op.Kind)
		}
		if nt {
			cls = append(cls, "effective-damage")
		}
		if s0 := r.EntryLine[e]; c.Orphan && (s0 == 0 || r.Lines[s0-1] == "") {
			d := applyDamageOpt(r.Lines[s0:r.EntryEnd[e]+1], c.Ops, true)
			if d[0] == "" || d[0][0] == ' ' || d[0][0] == '\t' {
				cls = append(cls, "first-line-lost-or-indented")
			}
		}
		recC07.Case(nt, mustJSON(c), cls...)
		if nt && recC07.WantSample() {
			recC07.Sample(c)
		}
		if surveyOn() {
			sv.add(append(featList(r.Feats), cls...), ds)
			return
		}
		report(t, recC07, "c07", c, ds)
	})
}

func init() {
	replayers["c07"] = func(raw json.RawMessage) ([]ev.Discrepancy, error) {
		var c C07Case
		if err := json.Unmarshal(raw, &c); err != nil {
			return nil, err
		}
		ds, _, _ := c07Check(&c)
		return ds, nil
	}
}

func contains(ss []string, x string) bool {
	for _, s := range ss {
		if s == x {
			return true
		}
	}
	return false
}
