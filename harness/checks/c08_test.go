package checks

// C08 — every reported range is well-formed, UTF-16 correct and on target.
// Oracles: refclient position validator on every position-bearing field found
// by the reflective walker; the renderer's lexeme spans for "on target".

import (
	"context"
	"encoding/json"
	"fmt"
	"strings"
	"testing"

	"go.lsp.dev/protocol"
	"pgregory.net/rapid"

	"github.com/juev/hledger-lsp/verifharness/ev"
	"github.com/juev/hledger-lsp/verifharness/gen"
	"github.com/juev/hledger-lsp/verifharness/lspx"
	m "github.com/juev/hledger-lsp/verifharness/model"
	"github.com/juev/hledger-lsp/verifharness/refclient"
)

type C08Case struct {
	Journal *m.Journal `json:"journal"`
	Stride  int        `json:"stride"` // cursor positions: every Stride-th column (1 = all)
}

const c08URI = "file:///c08/main.journal"

type c08ctx struct {
	r        *m.Rendered
	buf      *refclient.Buffer
	ds       []ev.Discrepancy
	nontriv  int
	requests int
}

func (c *c08ctx) add(line int, assertion, format string, a ...any) {
	var feats []string
	if line >= 0 && line < len(c.r.LineInfo) {
		feats = featList(c.r.EntryFeats[c.r.LineInfo[line].Entry])
	}
	if len(c.ds) < 40 {
		c.ds = append(c.ds, ev.Discrepancy{Assertion: assertion, Features: feats, Detail: fmt.Sprintf(format, a...)})
	}
}

// validate checks every position-bearing field of a response (3.2).
func (c *c08ctx) validate(what string, v any) []lspx.Found {
	fs := lspx.Walk(v)
	for _, f := range fs {
		if f.URI != "" && f.URI != c08URI {
			c.add(-1, "c08.uri", "%s: %s refers to document %q, the only document is %q", what, f.Path, f.URI, c08URI)
			continue
		}
		if f.Fold {
			if f.Range.Start.Line > f.Range.End.Line || f.Range.End.Line >= c.buf.LineCount() {
				c.add(f.Range.Start.Line, "c08.fold.lines", "%s: fold %d..%d outside the document (%d lines) or reversed", what, f.Range.Start.Line, f.Range.End.Line, c.buf.LineCount())
			}
			continue
		}
		if err := c.buf.ValidateRange(f.Range); err != nil {
			ln := ""
			if f.Range.Start.Line < c.buf.LineCount() {
				ln = c.buf.Line(f.Range.Start.Line)
			}
			c.add(f.Range.Start.Line, "c08.valid", "%s: %s = %d:%d-%d:%d: %v (line %q)", what, f.Path, f.Range.Start.Line, f.Range.Start.Char, f.Range.End.Line, f.Range.End.Char, err, ln)
			continue
		}
		// non-trivial: a range on a line where a non-ASCII character precedes it
		if f.Range.Start.Line < c.buf.LineCount() {
			pre := c.buf.Slice(refclient.Range{Start: refclient.Pos{Line: f.Range.Start.Line}, End: f.Range.Start})
			if strings.ContainsFunc(pre, func(r rune) bool { return r > 127 }) {
				c.nontriv++
			}
		}
	}
	return fs
}

func (c *c08ctx) cover(r refclient.Range) string { return c.buf.Slice(r) }

// spansAt returns the spans of the given kinds that contain the cursor (inclusive).
func (c *c08ctx) spansAt(line, ch int, kinds ...string) []m.Span {
	var out []m.Span
	for _, sp := range c.r.Spans {
		if sp.Line != line || ch < sp.S || ch > sp.E {
			continue
		}
		for _, k := range kinds {
			if sp.Kind == k {
				out = append(out, sp)
			}
		}
	}
	return out
}

func matchesSpan(r refclient.Range, sps []m.Span) bool {
	for _, sp := range sps {
		if r.Start.Line == sp.Line && r.End.Line == sp.Line && r.Start.Char == sp.S && r.End.Char == sp.E {
			return true
		}
	}
	return false
}

func protoToRef(r protocol.Range) refclient.Range {
	return refclient.Range{Start: refclient.Pos{Line: int(r.Start.Line), Char: int(r.Start.Character)}, End: refclient.Pos{Line: int(r.End.Line), Char: int(r.End.Character)}}
}

func stripQuotes(s string) string {
	if len(s) >= 2 && s[0] == '"' && s[len(s)-1] == '"' {
		return s[1 : len(s)-1]
	}
	return s
}

func c08Check(cs *C08Case) ([]ev.Discrepancy, *c08ctx) {
	r := m.Render(cs.Journal)
	c := &c08ctx{r: r, buf: refclient.New(r.Text)}
	h, err := lspx.New(lspx.Options{})
	if err != nil {
		return []ev.Discrepancy{ev.D("c08.harness", "%v", err)}, c
	}
	diags, err := h.OpenAndWait(c08URI, r.Text)
	if err != nil {
		return []ev.Discrepancy{ev.D("c08.harness", "%v", err)}, c
	}
	defer func() { _ = h.Close(c08URI) }()
	ctx := context.Background()
	guard := func(what string, line int, f func() error) {
		c.requests++
		var ferr error
		if perr := lspx.Guard(func() { ferr = f() }); perr != nil {
			c.add(line, "c08.total", "%s panicked: %v", what, perr)
		} else if ferr != nil {
			c.add(line, "c08.total", "%s returned an error: %v", what, ferr)
		}
	}

	// ---- diagnostics
	for _, d := range diags {
		c.validate("diagnostic "+fmt.Sprint(d.Code), d)
		rg := protoToRef(d.Range)
		if c.buf.ValidateRange(rg) != nil {
			continue
		}
		switch d.Code {
		case "UNDECLARED_COMMODITY":
			sps := c.spansAt(rg.Start.Line, rg.Start.Char, "commodity", "cost.commodity", "assert.commodity")
			if !matchesSpan(rg, sps) {
				c.add(rg.Start.Line, "c08.diag.undeclared-commodity", "UNDECLARED_COMMODITY range covers %q on line %q, not a commodity symbol", c.cover(rg), c.buf.Line(rg.Start.Line))
			}
		case "UNDECLARED_ACCOUNT":
			li := rg.Start.Line
			accts := c.r.SpansOn(li, "account")
			ok := rg.End.Line == li && len(accts) == 1 && rg.Start.Char <= accts[0].S && rg.End.Char >= accts[0].E
			if ok {
				// must start on the posting, not in the indent, and end inside the line
				lead := c.buf.Line(li)
				ind := len(lead) - len(strings.TrimLeft(lead, " \t"))
				ok = rg.Start.Char >= ind
			}
			if !ok {
				c.add(li, "c08.diag.undeclared-account", "UNDECLARED_ACCOUNT range %d:%d-%d:%d covers %q, which is neither the account nor its posting (line %q)", rg.Start.Line, rg.Start.Char, rg.End.Line, rg.End.Char, c.cover(rg), c.buf.Line(li))
			}
		}
	}

	// ---- position-free answers
	guard("documentSymbol", -1, func() error {
		res, err := h.S.DocumentSymbol(ctx, &protocol.DocumentSymbolParams{TextDocument: tdi(c08URI)})
		c.validate("documentSymbol", res)
		var rs []refclient.Range
		for _, s := range res {
			if ds, ok := s.(protocol.DocumentSymbol); ok {
				rg := protoToRef(ds.Range)
				if c.buf.ValidateRange(rg) == nil {
					rs = append(rs, rg)
				}
			}
		}
		less := func(a, b refclient.Pos) bool { return a.Line < b.Line || (a.Line == b.Line && a.Char < b.Char) }
		leq := func(a, b refclient.Pos) bool { return !less(b, a) }
		for i := range rs {
			for j := i + 1; j < len(rs); j++ {
				a, b := rs[i], rs[j]
				disjoint := leq(a.End, b.Start) || leq(b.End, a.Start)
				nested := (leq(a.Start, b.Start) && leq(b.End, a.End)) || (leq(b.Start, a.Start) && leq(a.End, b.End))
				if !disjoint && !nested {
					c.add(a.Start.Line, "c08.symbols.overlap", "outline symbols %v and %v partially overlap", a, b)
				}
			}
		}
		return err
	})
	guard("workspaceSymbol", -1, func() error {
		res, err := h.S.WorkspaceSymbol(ctx, &protocol.WorkspaceSymbolParams{Query: ""})
		c.validate("workspaceSymbol", res)
		for _, s := range res {
			rg := protoToRef(s.Location.Range)
			if string(s.Location.URI) != c08URI || c.buf.ValidateRange(rg) != nil {
				continue
			}
			if got := c.cover(rg); got != s.Name && stripQuotes(got) != s.Name {
				c.add(rg.Start.Line, "c08.workspace-symbol.on-target", "workspace symbol %q: its location covers %q on line %q", s.Name, got, c.buf.Line(rg.Start.Line))
			}
		}
		return err
	})
	guard("documentLink", -1, func() error {
		res, err := h.S.DocumentLink(ctx, &protocol.DocumentLinkParams{TextDocument: tdi(c08URI)})
		c.validate("documentLink", res)
		for _, l := range res {
			rg := protoToRef(l.Range)
			if c.buf.ValidateRange(rg) != nil {
				continue
			}
			if !matchesSpan(rg, c.r.SpansOn(rg.Start.Line, "path")) {
				c.add(rg.Start.Line, "c08.link.on-target", "document link covers %q on line %q, not the include path", c.cover(rg), c.buf.Line(rg.Start.Line))
			}
		}
		return err
	})
	guard("foldingRange", -1, func() error {
		res, err := h.S.FoldingRanges(ctx, &protocol.FoldingRangeParams{TextDocumentPositionParams: tdpp(c08URI, refclient.Pos{})})
		c.validate("foldingRange", res)
		for i := range res {
			a := res[i]
			if int(a.StartLine) < len(c.r.LineInfo) && c.r.LineInfo[a.StartLine].Kind == "header" {
				ei := c.r.LineInfo[a.StartLine].Entry
				if int(a.EndLine) > c.r.EntryEnd[ei] {
					c.add(int(a.StartLine), "c08.fold.own-entry", "fold of the transaction at line %d ends on line %d, its entry ends on line %d", a.StartLine, a.EndLine, c.r.EntryEnd[ei])
				}
			}
			for j := i + 1; j < len(res); j++ {
				b := res[j]
				disjoint := a.EndLine < b.StartLine || b.EndLine < a.StartLine
				nested := (a.StartLine <= b.StartLine && b.EndLine <= a.EndLine) || (b.StartLine <= a.StartLine && a.EndLine <= b.EndLine)
				if !disjoint && !nested {
					c.add(int(a.StartLine), "c08.fold.overlap", "folds %d..%d and %d..%d partially overlap", a.StartLine, a.EndLine, b.StartLine, b.EndLine)
				}
			}
		}
		return err
	})

	// ---- every cursor position
	stride := cs.Stride
	if stride < 1 {
		stride = 1
	}
	for li := 0; li < c.buf.LineCount(); li++ {
		ll := c.buf.LineLen(li)
		for ch := 0; ch <= ll; ch++ {
			if ch%stride != 0 && ch != ll {
				continue
			}
			pos := refclient.Pos{Line: li, Char: ch}
			if c.buf.ValidatePos(pos) != nil {
				continue // inside a surrogate pair: a client cannot send it
			}
			where := fmt.Sprintf("at %d:%d", li, ch)
			guard("hover "+where, li, func() error {
				res, err := h.S.Hover(ctx, &protocol.HoverParams{TextDocumentPositionParams: tdpp(c08URI, pos)})
				c.validate("hover "+where, res)
				if res != nil && res.Range != nil {
					rg := protoToRef(*res.Range)
					if c.buf.ValidateRange(rg) == nil {
						sps := c.spansAt(li, ch, "account", "amount", "date", "description", "payee", "tagname", "tagvalue")
						if len(sps) > 0 && !matchesSpan(rg, sps) {
							c.add(li, "c08.hover.on-target", "hover %s (cursor on %q) reports range %d:%d-%d:%d covering %q on line %q", where, sps[0].Text, rg.Start.Line, rg.Start.Char, rg.End.Line, rg.End.Char, c.cover(rg), c.buf.Line(li))
						}
					}
				}
				return err
			})
			var target string
			var haveTarget bool
			guard("prepareRename "+where, li, func() error {
				res, err := h.S.PrepareRename(ctx, &protocol.PrepareRenameParams{TextDocumentPositionParams: tdpp(c08URI, pos)})
				c.validate("prepareRename "+where, res)
				if res != nil {
					rg := protoToRef(*res)
					if c.buf.ValidateRange(rg) == nil {
						sps := c.spansAt(li, ch, "account", "commodity", "cost.commodity", "assert.commodity", "description", "payee")
						if len(sps) > 0 && !matchesSpan(rg, sps) {
							c.add(li, "c08.prepare-rename.on-target", "prepareRename %s (cursor on %q) reports %d:%d-%d:%d covering %q on line %q", where, sps[0].Text, rg.Start.Line, rg.Start.Char, rg.End.Line, rg.End.Char, c.cover(rg), c.buf.Line(li))
						} else if len(sps) > 0 {
							target, haveTarget = c.cover(rg), true
						}
					}
				}
				return err
			})
			guard("definition "+where, li, func() error {
				res, err := h.S.Definition(ctx, &protocol.DefinitionParams{TextDocumentPositionParams: tdpp(c08URI, pos)})
				c.validate("definition "+where, res)
				return err
			})
			guard("references "+where, li, func() error {
				res, err := h.S.References(ctx, &protocol.ReferenceParams{TextDocumentPositionParams: tdpp(c08URI, pos), Context: protocol.ReferenceContext{IncludeDeclaration: true}})
				c.validate("references "+where, res)
				if haveTarget {
					for _, l := range res {
						rg := protoToRef(l.Range)
						if string(l.URI) == c08URI && c.buf.ValidateRange(rg) == nil {
							if got := c.cover(rg); got != target && stripQuotes(got) != stripQuotes(target) {
								c.add(rg.Start.Line, "c08.references.on-target", "references %s for %q: location %d:%d-%d:%d covers %q on line %q", where, target, rg.Start.Line, rg.Start.Char, rg.End.Line, rg.End.Char, got, c.buf.Line(rg.Start.Line))
							}
						}
					}
				}
				return err
			})
			guard("rename "+where, li, func() error {
				res, err := h.S.Rename(ctx, &protocol.RenameParams{TextDocumentPositionParams: tdpp(c08URI, pos), NewName: "renamed:name"})
				c.validate("rename "+where, res)
				if res != nil {
					var edits []refclient.Edit
					for _, e := range res.Changes[protocol.DocumentURI(c08URI)] {
						rg := protoToRef(e.Range)
						if c.buf.ValidateRange(rg) != nil {
							return err
						}
						edits = append(edits, refclient.Edit{Range: rg, Text: e.NewText})
						if haveTarget {
							if got := c.cover(rg); got != target && stripQuotes(got) != stripQuotes(target) {
								c.add(rg.Start.Line, "c08.rename.on-target", "rename %s of %q: edit covers %q on line %q", where, target, got, c.buf.Line(rg.Start.Line))
							}
						}
					}
					if _, aerr := c.buf.ApplyEdits(edits); aerr != nil {
						c.add(li, "c08.rename.edits", "rename %s: %v", where, aerr)
					}
				}
				return err
			})
			guard("completion "+where, li, func() error {
				res, err := h.S.Completion(ctx, &protocol.CompletionParams{TextDocumentPositionParams: tdpp(c08URI, pos)})
				c.validate("completion "+where, res)
				if res != nil {
					for _, it := range res.Items {
						if it.TextEdit == nil {
							continue
						}
						rg := protoToRef(it.TextEdit.Range)
						if rg.Start.Line != li || rg.End.Line != li || rg.End.Char != ch || rg.Start.Char > ch {
							c.add(li, "c08.completion.edit", "completion %s: item %q replaces %d:%d-%d:%d, which is not a range ending at the cursor on its line (%q)", where, it.Label, rg.Start.Line, rg.Start.Char, rg.End.Line, rg.End.Char, c.buf.Line(li))
							break
						}
					}
				}
				return err
			})
			guard("inlineCompletion "+where, li, func() error {
				raw, _ := json.Marshal(map[string]any{"textDocument": map[string]any{"uri": c08URI}, "position": map[string]any{"line": li, "character": ch}, "context": map[string]any{"triggerKind": 1}})
				res, err := h.S.InlineCompletion(ctx, raw)
				c.validate("inlineCompletion "+where, res)
				return err
			})
			if len(c.ds) >= 40 {
				return c.ds, c
			}
		}
	}
	return c.ds, c
}

var c08Opts = gen.JournalOpts{MinEntries: 1, MaxEntries: 5, Directives: true, TopComments: true,
	Tx: gen.TxOpts{MaxPostings: 3, MaxScale: 3, MaxDigits: 6}}

var recC08 = ev.New("C08")

func TestC08(t *testing.T) {
	defer recC08.Flush()
	sv := newSurvey()
	if surveyOn() {
		defer sv.print()
	}
	rapid.Check(t, func(t *rapid.T) {
		p := profileFor(recC08)
		pools := gen.GenPools(t, p)
		c := &C08Case{Journal: gen.GenJournal(t, p, pools, c08Opts), Stride: rapid.SampledFrom([]int{1, 1, 2, 3}).Draw(t, "stride")}
		if !disabled("c08.raw-directives") && rapid.IntRange(0, 3).Draw(t, "rawdir") == 0 {
			// directives the model has no fields for: the display format of amounts without commodity,
			// a price without amount commodity ... - whatever the server makes of them, what it reports lies inside the text
			raw := rapid.SampledFrom([]string{"commodity 1.000,00", "commodity 1 000 000.9455", "D 1,000.00", "commodity", "account", "P 2024-01-01 EUR 1.10", "Y 2024", "payee Whole Foods", "tag trip", "alias a=b",
				// headers with nothing where a payee would be
				"2024-01-01 | note only", "2024-01-01 * | n", "2024-01-01 (c) |x", "2024-01-01", "2024-01-01 !", "2024-01-01 (7)"}).Draw(t, "rawline")
			at := rapid.IntRange(0, len(c.Journal.Entries)).Draw(t, "rawat")
			c.Journal.Entries = append(c.Journal.Entries[:at:at], append([]m.Entry{{Raw: &raw, Blank: 1}}, c.Journal.Entries[at:]...)...)
		}
		ds, cx := c08Check(c)
		nt := cx.nontriv > 0
		recC08.Case(nt, []byte(cx.r.Text), featList(cx.r.Feats)...)
		recC08.Count("requests", int64(cx.requests))
		recC08.Count("ranges_after_nonascii", int64(cx.nontriv))
		if nt && recC08.WantSample() {
			recC08.Sample(cx.r.Text)
		}
		if surveyOn() {
			sv.add(featList(cx.r.Feats), ds)
			return
		}
		report(t, recC08, "c08", c, ds)
	})
}

func init() {
	replayers["c08"] = func(raw json.RawMessage) ([]ev.Discrepancy, error) {
		var c C08Case
		if err := json.Unmarshal(raw, &c); err != nil {
			return nil, err
		}
		ds, _ := c08Check(&c)
		return ds, nil
	}
}
