package checks

// C08, diagnostics of include problems — every published range lies inside the
// document it is published for, also when the problem sits in a file further
// down the include tree (a missing, cyclic, too deep or oversized include named
// on line 30 of an included file must not produce a range on line 30 of a
// 3-line document), and is attached to an include directive of that document.

import (
	"encoding/json"
	"fmt"
	"os"
	"path/filepath"
	"strings"
	"testing"

	"pgregory.net/rapid"

	"github.com/juev/hledger-lsp/verifharness/ev"
	"github.com/juev/hledger-lsp/verifharness/lspx"
	"github.com/juev/hledger-lsp/verifharness/refclient"
)

type C08IncCase struct {
	Pad     []int    `json:"pad"`     // comment lines in front of the directives of main, l1, l2
	Problem string   `json:"problem"` // missing | cycle | self | toodeep | oversized
	Level   int      `json:"level"`   // the file (1 = l1, 2 = l2) whose directive names the problem
	Root    bool     `json:"root"`
	CRLF    bool     `json:"crlf"`
	Extra   []string `json:"extra,omitempty"` // further (valid) lines of main after its include
	// the include directives of main / of l1 are written as patterns that match exactly the one file
	MainGlob bool `json:"main_glob,omitempty"`
	L1Glob   bool `json:"l1_glob,omitempty"`
}

var c08incSeq int

func c08IncCheck(c *C08IncCase) []ev.Discrepancy {
	c08incSeq++
	dir := filepath.Join(scratch(), fmt.Sprintf("c08inc-%d", c08incSeq))
	_ = os.MkdirAll(dir, 0o755)
	defer os.RemoveAll(dir)
	nl := "\n"
	if c.CRLF {
		nl = "\r\n"
	}
	pad := func(n int) string { return strings.Repeat("; pad"+nl, n) }
	tx := "2024-01-01 shop" + nl + "    expenses:food  1 EUR" + nl + "    assets:cash" + nl
	problem := map[string]string{"missing": "include nosuch.journal", "cycle": "include main.journal", "self": "include l%d.journal", "toodeep": "include l3.journal", "oversized": "include big.journal"}[c.Problem]
	if c.Problem == "self" {
		problem = fmt.Sprintf(problem, c.Level)
	}
	incL1, incL2 := "include l1.journal", "include l2.journal"
	if c.MainGlob {
		incL1 = "include l1*.journal"
	}
	if c.L1Glob {
		incL2 = "include l[2].journal"
	}
	files := map[string]string{
		"l1.journal":  pad(c.Pad[1]) + incL2 + nl + tx,
		"l2.journal":  pad(c.Pad[2]) + tx,
		"l3.journal":  "include l4.journal" + nl + tx,
		"l4.journal":  tx,
		"big.journal": "; " + strings.Repeat("x", 5000) + nl,
	}
	key := fmt.Sprintf("l%d.journal", c.Level)
	files[key] = strings.Replace(files[key], tx, problem+nl+tx, 1)
	mainText := pad(c.Pad[0]) + incL1 + nl + strings.ReplaceAll(strings.Join(c.Extra, "\n"), "\n", nl)
	if len(c.Extra) > 0 {
		mainText += nl
	}
	files["main.journal"] = mainText
	for name, txt := range files {
		if err := os.WriteFile(filepath.Join(dir, name), []byte(txt), 0o644); err != nil {
			return []ev.Discrepancy{ev.D("c08.harness", "%v", err)}
		}
	}
	opts := lspx.Options{}
	if c.Root {
		opts.RootDir = dir
	}
	limits := map[string]any{}
	if c.Problem == "toodeep" {
		limits["maxIncludeDepth"] = 3 + c.Level // main, l1, (l2) and l3 fit; l4 does not
	}
	if c.Problem == "oversized" {
		limits["maxFileSizeBytes"] = 2000
	}
	if len(limits) > 0 {
		opts.InitOptions = map[string]any{"limits": limits}
	}
	h, err := lspx.New(opts)
	if err != nil {
		return []ev.Discrepancy{ev.D("c08.harness", "%v", err)}
	}
	uri := "file://" + filepath.Join(dir, "main.journal")
	diags, err := h.OpenAndWait(uri, mainText)
	if err != nil {
		return []ev.Discrepancy{ev.D("c08.harness", "%v", err)}
	}
	defer func() { _ = h.Close(uri); _ = h.Quiesce() }()
	buf := refclient.New(mainText)
	var ds []ev.Discrepancy
	for _, d := range diags {
		r := protoToRef(d.Range)
		if verr := buf.ValidateRange(r); verr != nil {
			ds = append(ds, ev.D("c08.valid", "diagnostic %q published for main.journal (%d lines) at %d:%d-%d:%d: %v; the problem (%s) is named on line %d of %s",
				d.Message, buf.LineCount(), r.Start.Line, r.Start.Char, r.End.Line, r.End.Char, verr, c.Problem, c.Pad[c.Level]+1, key))
			continue
		}
		if d.Code == nil || d.Code == "" {
			// an include problem: it must sit on the include directive of this document
			if got := buf.Slice(r); !strings.HasPrefix(strings.TrimSpace(buf.Line(r.Start.Line)), "include") {
				ds = append(ds, ev.D("c08.include-error.on-target", "diagnostic %q published for main.journal covers %q on line %d %q, which is not an include directive", d.Message, got, r.Start.Line, buf.Line(r.Start.Line)))
			}
		}
	}
	return ds
}

func TestC08Includes(t *testing.T) {
	defer recC08.Flush()
	limit := 300
	if tier() == "thorough" {
		limit = 5000
	}
	n := 0
	rapid.Check(t, func(t *rapid.T) {
		if n >= limit && recC08.Evals() > 0 {
			return
		}
		n++
		c := &C08IncCase{Problem: rapid.SampledFrom([]string{"missing", "cycle", "self", "toodeep", "oversized"}).Draw(t, "problem"),
			Level: rapid.IntRange(1, 2).Draw(t, "level"), Root: rapid.Bool().Draw(t, "root"), CRLF: rapid.Bool().Draw(t, "crlf"),
			MainGlob: rapid.IntRange(0, 2).Draw(t, "mainglob") == 0, L1Glob: rapid.IntRange(0, 2).Draw(t, "l1glob") == 0}
		for i := 0; i < 3; i++ {
			c.Pad = append(c.Pad, rapid.SampledFrom([]int{0, 1, 3, 12, 40}).Draw(t, "pad"))
		}
		for i := rapid.IntRange(0, 3).Draw(t, "extra"); i > 0; i-- {
			c.Extra = append(c.Extra, rapid.SampledFrom([]string{"", "; note é😀", "account expenses:food", "2024-02-02 x\n    expenses:food  2 EUR\n    assets:cash\n"}).Draw(t, "line"))
		}
		ds := c08IncCheck(c)
		recC08.Case(c.Pad[c.Level] > c.Pad[0]+len(c.Extra), mustJSON(c), "include-problem:"+c.Problem, fmt.Sprintf("nested-level:%d", c.Level), fmt.Sprintf("include-by-pattern:%v", c.MainGlob || c.L1Glob))
		report(t, recC08, "c08inc", c, ds)
	})
}

func init() {
	replayers["c08inc"] = func(raw json.RawMessage) ([]ev.Discrepancy, error) {
		var c C08IncCase
		if err := json.Unmarshal(raw, &c); err != nil {
			return nil, err
		}
		return c08IncCheck(&c), nil
	}
}
