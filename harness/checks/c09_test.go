package checks

// C09 — references and rename hit exactly the symbol's occurrences, in the right files.
// Oracle: the renderer's occurrence table over the files in scope (DESIGN.md 5.9).

import (
	"context"
	"encoding/json"
	"fmt"
	"os"
	"path/filepath"
	"sort"
	"strings"
	"testing"

	"go.lsp.dev/protocol"
	"go.lsp.dev/uri"
	"pgregory.net/rapid"

	"github.com/juev/hledger-lsp/verifharness/ev"
	"github.com/juev/hledger-lsp/verifharness/gen"
	"github.com/juev/hledger-lsp/verifharness/lspx"
	m "github.com/juev/hledger-lsp/verifharness/model"
	"github.com/juev/hledger-lsp/verifharness/refclient"
)

type C09Case struct {
	WS       *gen.Workspace `json:"ws"`
	Root     bool           `json:"root"`      // server started with a workspace root
	From     int            `json:"from"`      // index of the requesting file
	EditMode int            `json:"edit_mode"` // 0 none, 1 unsaved: extra transaction appended, 2 unsaved: last entry dropped
	Extra    *m.Tx          `json:"extra,omitempty"`
	EditFile *int           `json:"edit_file,omitempty"` // the open file that carries the unsaved edit; nil: the requesting file
	DirName  string         `json:"dir_name,omitempty"`  // suffix of the directory's name (a blank, non-ASCII letters, a percent sign): URIs are then sent percent-encoded, as clients do
	LateOpen bool           `json:"late_open,omitempty"` // the other file is opened with the unsaved text (no change notification), after a first request from the requesting file
}

func (c *C09Case) editFile() int {
	if c.EditFile != nil {
		return *c.EditFile
	}
	return c.From
}

type occ struct {
	File  int
	Line  int
	S, E  int
	Decl  bool // part of an account / commodity directive
	Loose bool // D directive symbol: declaration or use, either reading is accepted when declarations are not asked for
}

func (o occ) key(uri string) string { return fmt.Sprintf("%s %d:%d-%d", uri, o.Line, o.S, o.E) }

// occurrences builds, per symbol kind and name, every place the name is written.
type occTable struct {
	accounts    map[string][]occ
	commodities map[string][]occ
	payees      map[string][]occ
}

func newOccTable() *occTable {
	return &occTable{accounts: map[string][]occ{}, commodities: map[string][]occ{}, payees: map[string][]occ{}}
}

func (t *occTable) addFile(fi int, j *m.Journal, r *m.Rendered) {
	for _, sp := range r.Spans {
		var e *m.Entry
		if sp.Entry >= 0 && sp.Entry < len(j.Entries) {
			e = &j.Entries[sp.Entry]
		}
		isDir := e != nil && e.Dir != nil
		switch sp.Kind {
		case "account":
			t.accounts[sp.Text] = append(t.accounts[sp.Text], occ{File: fi, Line: sp.Line, S: sp.S, E: sp.E, Decl: isDir})
		case "commodity", "cost.commodity", "assert.commodity", "price.commodity", "fmt.commodity":
			name := stripQuotes(sp.Text)
			o := occ{File: fi, Line: sp.Line, S: sp.S, E: sp.E}
			if isDir {
				switch e.Dir.Kind {
				case "commodity", "commodity-sub":
					o.Decl = true
				case "D":
					o.Loose = true
				}
			}
			t.commodities[name] = append(t.commodities[name], o)
		case "payee", "description":
			t.payees[sp.Text] = append(t.payees[sp.Text], occ{File: fi, Line: sp.Line, S: sp.S, E: sp.E})
		}
	}
}

func c09Buffer(c *C09Case) *m.Journal {
	j := c.WS.Files[c.editFile()].Journal
	switch c.EditMode {
	case 1:
		nj := &m.Journal{NL: j.NL, Entries: append(append([]m.Entry{}, j.Entries...), m.Entry{Tx: c.Extra, Blank: 1})}
		return nj
	case 2:
		// drop the last entry that is not an include directive
		for i := len(j.Entries) - 1; i >= 0; i-- {
			if j.Entries[i].Dir != nil && j.Entries[i].Dir.Kind == "include" {
				continue
			}
			nj := &m.Journal{NL: j.NL}
			nj.Entries = append(nj.Entries, j.Entries[:i]...)
			nj.Entries = append(nj.Entries, j.Entries[i+1:]...)
			return nj
		}
	}
	return j
}

var c09Seq int

func c09Check(c *C09Case) (ds []ev.Discrepancy, stats map[string]int) {
	stats = map[string]int{}
	c09Seq++
	root := filepath.Join(scratch(), fmt.Sprintf("c09-%d", c09Seq)+c.DirName)
	defer os.RemoveAll(root)
	_ = os.MkdirAll(filepath.Join(root, "sub"), 0o755)
	n := len(c.WS.Files)
	disk := make([]*m.Rendered, n)
	paths := make([]string, n)
	uris := make([]string, n)
	for i, f := range c.WS.Files {
		disk[i] = m.Render(f.Journal)
		paths[i] = filepath.Join(root, f.Rel)
		uris[i] = "file://" + paths[i]
		if c.DirName != "" {
			uris[i] = string(uri.File(paths[i]))
		}
		if err := os.WriteFile(paths[i], []byte(disk[i].Text), 0o644); err != nil {
			panic(err)
		}
	}
	opts := lspx.Options{}
	if c.Root {
		opts.RootDir = root
		if c.DirName != "" {
			opts.RootURI = string(uri.File(root))
		}
	}
	h, err := lspx.New(opts)
	if err != nil {
		return []ev.Discrepancy{ev.D("c09.harness", "%v", err)}, stats
	}
	ef := c.editFile()
	editJ := c09Buffer(c)
	editR := m.Render(editJ)
	if _, err := h.OpenAndWait(uris[c.From], disk[c.From].Text); err != nil {
		return []ev.Discrepancy{ev.D("c09.harness", "%v", err)}, stats
	}
	lateOpen := c.LateOpen && ef != c.From && c.EditMode != 0
	if ef != c.From {
		text := disk[ef].Text
		if lateOpen {
			// the server has answered from this file's include tree before the other file is opened
			// with a text that is not the one on disk (a restored unsaved buffer)
			_ = lspx.Guard(func() {
				_, _ = h.S.References(context.Background(), &protocol.ReferenceParams{TextDocumentPositionParams: tdpp(uris[c.From], refclient.Pos{}), Context: protocol.ReferenceContext{IncludeDeclaration: true}})
			})
			text = editR.Text
		}
		if _, err := h.OpenAndWait(uris[ef], text); err != nil {
			return []ev.Discrepancy{ev.D("c09.harness", "%v", err)}, stats
		}
		defer func() { _ = h.Close(uris[ef]) }()
	}
	if c.EditMode != 0 && !lateOpen {
		_ = h.Change(uris[ef], 2, []refclient.Change{{Text: editR.Text}})
		if err := h.Quiesce(); err != nil {
			return []ev.Discrepancy{ev.D("c09.harness", "%v", err)}, stats
		}
	}
	defer func() { _ = h.Close(uris[c.From]); _ = h.Quiesce() }()
	// the text of the requesting file as the client holds it
	bufJ, bufR := c.WS.Files[c.From].Journal, disk[c.From]
	if ef == c.From {
		bufJ, bufR = editJ, editR
	}

	// scope and occurrence table
	scopeRoot := c.From
	if c.Root {
		scopeRoot = 0
	}
	scope := c.WS.Reachable(scopeRoot)
	texts := map[int]*m.Rendered{}
	journals := map[int]*m.Journal{}
	tab := newOccTable()
	for _, fi := range scope {
		r, j := disk[fi], c.WS.Files[fi].Journal
		if fi == ef {
			r, j = editR, editJ
		}
		texts[fi], journals[fi] = r, j
		tab.addFile(fi, j, r)
	}
	stats["scope_files"] = len(scope)
	ctx := context.Background()
	feats := featList(bufR.Feats)
	add := func(assertion, format string, a ...any) {
		if len(ds) < 30 {
			ds = append(ds, ev.Discrepancy{Assertion: assertion, Features: feats, Detail: fmt.Sprintf(format, a...)})
		}
	}
	expectSet := func(os []occ, includeDecl bool) (must, may map[string]bool) {
		must, may = map[string]bool{}, map[string]bool{}
		for _, o := range os {
			k := o.key(uris[o.File])
			switch {
			case o.Decl && !includeDecl:
			case o.Loose && !includeDecl:
				may[k] = true
			default:
				must[k] = true
			}
		}
		return
	}
	type probe struct {
		kind string
		name string
		occs []occ
		sp   m.Span
	}
	var probes []probe
	for _, sp := range bufR.Spans {
		e := &bufJ.Entries[sp.Entry]
		_ = e
		switch sp.Kind {
		case "account":
			// the cursor on any occurrence: posting accounts and account directives
			probes = append(probes, probe{"account", sp.Text, tab.accounts[sp.Text], sp})
		case "commodity", "cost.commodity", "assert.commodity", "price.commodity", "fmt.commodity":
			// ... amounts, costs, assertions, commodity / P / D directives and format subdirectives
			probes = append(probes, probe{"commodity", stripQuotes(sp.Text), tab.commodities[stripQuotes(sp.Text)], sp})
		case "payee", "description":
			probes = append(probes, probe{"payee", sp.Text, tab.payees[sp.Text], sp})
		}
	}
	seenProbe := map[string]bool{}
	for _, pr := range probes {
		id := pr.kind + "\x00" + pr.name
		first := !seenProbe[id]
		seenProbe[id] = true
		pos := refclient.Pos{Line: pr.sp.Line, Char: pr.sp.S + (pr.sp.E-pr.sp.S)/2}
		if refclient.New(bufR.Text).ValidatePos(pos) != nil {
			pos.Char = pr.sp.S
		}
		files := map[int]bool{}
		for _, o := range pr.occs {
			files[o.File] = true
		}
		if len(files) >= 2 {
			stats["symbol_in_2_files"]++
		}
		for _, incl := range []bool{true, false} {
			var res []protocol.Location
			var rerr error
			if perr := lspx.Guard(func() {
				res, rerr = h.S.References(ctx, &protocol.ReferenceParams{TextDocumentPositionParams: tdpp(uris[c.From], pos), Context: protocol.ReferenceContext{IncludeDeclaration: incl}})
			}); perr != nil || rerr != nil {
				add("c09.total", "references failed: %v %v", perr, rerr)
				continue
			}
			stats["reference_requests"]++
			must, may := expectSet(pr.occs, incl)
			got := map[string]bool{}
			for _, l := range res {
				k := fmt.Sprintf("%s %d:%d-%d", l.URI, l.Range.Start.Line, l.Range.Start.Character, l.Range.End.Character)
				if l.Range.Start.Line != l.Range.End.Line {
					k += fmt.Sprintf("(ends on line %d)", l.Range.End.Line)
				}
				if got[k] {
					add("c09.references.duplicate", "%s %q from %s (declarations=%v): location %s returned twice", pr.kind, pr.name, c.WS.Files[c.From].Rel, incl, strings.TrimPrefix(k, "file://"+root+"/"))
				}
				got[k] = true
			}
			var missing, extra []string
			for k := range must {
				if !got[k] {
					missing = append(missing, strings.TrimPrefix(k, "file://"+root+"/"))
				}
			}
			for k := range got {
				if !must[k] && !may[k] {
					extra = append(extra, strings.TrimPrefix(k, "file://"+root+"/"))
				}
			}
			sort.Strings(missing)
			sort.Strings(extra)
			if len(missing) > 0 {
				add("c09.references.missing."+pr.kind, "%s %q, cursor %d:%d in %s, root=%v, declarations=%v: occurrences not returned: %v (returned %d)", pr.kind, pr.name, pos.Line, pos.Char, c.WS.Files[c.From].Rel, c.Root, incl, missing, len(res))
			}
			if len(extra) > 0 {
				add("c09.references.extra."+pr.kind, "%s %q, cursor %d:%d in %s, root=%v, declarations=%v: locations that are not occurrences: %v", pr.kind, pr.name, pos.Line, pos.Char, c.WS.Files[c.From].Rel, c.Root, incl, extra)
			}
		}
		if !first {
			continue
		}
		// ---- rename: applying the edits must give exactly the texts with every occurrence replaced
		newName := map[string]string{"account": "renamed:acct", "commodity": "ZZZ", "payee": "renamed payee"}[pr.kind]
		newText := newName
		if pr.kind == "commodity" {
			// a new name that is not read back as itself without quotes is written in quotes
			newName = []string{"ZZZ", "EUR2", "my coin"}[(len(pr.name)+len(pr.occs))%3]
			newText = m.SymText(newName)
		}
		var we *protocol.WorkspaceEdit
		var rerr error
		if perr := lspx.Guard(func() {
			we, rerr = h.S.Rename(ctx, &protocol.RenameParams{TextDocumentPositionParams: tdpp(uris[c.From], pos), NewName: newName})
		}); perr != nil || rerr != nil {
			add("c09.total", "rename failed: %v %v", perr, rerr)
			continue
		}
		stats["rename_requests"]++
		for _, fi := range scope {
			var want []refclient.Edit
			for _, o := range pr.occs {
				if o.File == fi {
					want = append(want, refclient.Edit{Range: refclient.Range{Start: refclient.Pos{Line: o.Line, Char: o.S}, End: refclient.Pos{Line: o.Line, Char: o.E}}, Text: newText})
				}
			}
			base := refclient.New(texts[fi].Text)
			wantBuf, _ := base.ApplyEdits(want)
			var gotEdits []refclient.Edit
			if we != nil {
				for _, e := range we.Changes[protocol.DocumentURI(uris[fi])] {
					gotEdits = append(gotEdits, refclient.Edit{Range: protoToRef(e.Range), Text: e.NewText})
				}
			}
			gotBuf, aerr := base.ApplyEdits(gotEdits)
			if aerr != nil {
				add("c09.rename.edits", "rename %s %q: edits for %s cannot be applied: %v", pr.kind, pr.name, c.WS.Files[fi].Rel, aerr)
				continue
			}
			if gotBuf.String() != wantBuf.String() {
				add("c09.rename.result."+pr.kind, "rename %s %q -> %q from %s (root=%v): file %s becomes %q, expected %q", pr.kind, pr.name, newName, c.WS.Files[c.From].Rel, c.Root, c.WS.Files[fi].Rel, diffHint(gotBuf.String(), wantBuf.String()), diffHint(wantBuf.String(), gotBuf.String()))
			}
		}
		if we != nil {
			for u := range we.Changes {
				known := false
				for _, fi := range scope {
					if uris[fi] == string(u) {
						known = true
					}
				}
				if !known {
					add("c09.rename.foreign-file", "rename %s %q edits %s, which is not a file in scope", pr.kind, pr.name, u)
				}
			}
		}
	}
	return ds, stats
}

// diffHint returns the first line of a that differs from b.
func diffHint(a, b string) string {
	la, lb := strings.Split(a, "\n"), strings.Split(b, "\n")
	for i := range la {
		if i >= len(lb) || la[i] != lb[i] {
			return fmt.Sprintf("line %d: %s", i, la[i])
		}
	}
	return "(same prefix, different length)"
}

var c09Opts = gen.WSOpts{MinFiles: 1, MaxFiles: 4, AllReachable: false,
	Journal: gen.JournalOpts{MinEntries: 1, MaxEntries: 4, Directives: true, TopComments: false, Tx: gen.TxOpts{MaxPostings: 3, MaxScale: 3, MaxDigits: 5}}}

var recC09 = ev.New("C09")

func TestC09(t *testing.T) {
	defer recC09.Flush()
	sv := newSurvey()
	if surveyOn() {
		defer sv.print()
	}
	rapid.Check(t, func(t *rapid.T) {
		p := profileFor(recC09)
		pools := gen.GenPools(t, p)
		ws := gen.GenWorkspace(t, p, pools, c09Opts)
		c := &C09Case{WS: ws, Root: rapid.Bool().Draw(t, "root")}
		reach := ws.Reachable(0)
		if c.Root {
			c.From = rapid.SampledFrom(reach).Draw(t, "from")
		} else {
			c.From = rapid.IntRange(0, len(ws.Files)-1).Draw(t, "from")
		}
		c.EditMode = rapid.SampledFrom([]int{0, 0, 1, 2}).Draw(t, "editmode")
		if c.EditMode == 1 {
			c.Extra = gen.GenTx(t, p, pools, gen.TxOpts{MaxPostings: 3, MaxScale: 2, MaxDigits: 4})
		}
		if c.EditMode != 0 && !disabled("c09.edit-other-file") && rapid.Bool().Draw(t, "editother") {
			// the unsaved edit sits in another open file of the requesting file's scope
			scopeRoot := c.From
			if c.Root {
				scopeRoot = 0
			}
			ef := rapid.SampledFrom(ws.Reachable(scopeRoot)).Draw(t, "editfile")
			c.EditFile = &ef
			c.LateOpen = ef != c.From && rapid.Bool().Draw(t, "lateopen")
		}
		if !disabled("c09.dir-name") && rapid.IntRange(0, 3).Draw(t, "dirname") == 0 {
			c.DirName = rapid.SampledFrom([]string{" my ledger", "-журнал", "-100%", "-a#b"}).Draw(t, "dirnamev")
		}
		ds, st := c09Check(c)
		nt := st["symbol_in_2_files"] > 0 || c.From != 0
		cls := []string{fmt.Sprintf("root:%v", c.Root), fmt.Sprintf("from-root-file:%v", c.From == 0), fmt.Sprintf("edit:%d", c.EditMode), fmt.Sprintf("files:%d", len(ws.Files)), fmt.Sprintf("edit-in-other-file:%v", c.EditMode != 0 && c.editFile() != c.From), fmt.Sprintf("other-file-opened-with-unsaved-text:%v", c.LateOpen), fmt.Sprintf("directory-name-needs-encoding:%v", c.DirName != "")}
		recC09.Case(nt, mustJSON(c), cls...)
		for k, v := range st {
			recC09.Count(k, int64(v))
		}
		if nt && recC09.WantSample() {
			var sb strings.Builder
			for _, f := range ws.Files {
				sb.WriteString("== " + f.Rel + "\n" + m.Render(f.Journal).Text)
			}
			recC09.Sample(map[string]any{"root": c.Root, "from": ws.Files[c.From].Rel, "edit_mode": c.EditMode, "files": sb.String()})
		}
		if surveyOn() {
			var fs []string
			for _, f := range ws.Files {
				fs = append(fs, featList(m.Render(f.Journal).Feats)...)
			}
			sv.add(append(fs, cls...), ds)
			return
		}
		report(t, recC09, "c09", c, ds)
	})
}

func init() {
	replayers["c09"] = func(raw json.RawMessage) ([]ev.Discrepancy, error) {
		var c C09Case
		if err := json.Unmarshal(raw, &c); err != nil {
			return nil, err
		}
		ds, _ := c09Check(&c)
		return ds, nil
	}
}
