package checks

// C10 — include resolution equals graph reachability, with exact cycle verdicts.
// Oracle: an independent depth-first reference resolver (DESIGN.md 3.5).

import (
	"encoding/json"
	"fmt"
	"os"
	"path/filepath"
	"sort"
	"strings"
	"testing"
	"time"

	"github.com/juev/hledger-lsp/internal/include"
	"github.com/juev/hledger-lsp/verifharness/ev"
	"pgregory.net/rapid"
)

type IncDir struct {
	Kind    string `json:"kind"`             // file | dangling | glob
	Target  int    `json:"target,omitempty"` // file index (kind=file)
	Form    string `json:"form,omitempty"`   // rel | dot | abs | home | absdot | absup (kind=file)
	Pattern string `json:"pattern,omitempty"`
}

type C10Case struct {
	N           int        `json:"n"`
	Dirs        [][]IncDir `json:"dirs"`
	DepthLimit  int        `json:"depth_limit"`    // 0 = default
	Oversized   int        `json:"oversized"`      // file index made larger than the size limit, -1 none
	Warm        bool       `json:"warm,omitempty"` // the loader has resolved the same root under the default limits before the case's limits are set
	FromContent bool       `json:"from_content"`
}

var c10Names = []string{"main.journal", "a.journal", "b.journal", "sub/c.journal", "sub/d.journal"}

const c10Pad = 10 // file k starts with 10*k comment lines: a directive is identified by its line

func c10Path(root string, i int) string { return filepath.Join(root, c10Names[i]) }

func relPath(fromFile, toFile string) string {
	r, err := filepath.Rel(filepath.Dir(fromFile), toFile)
	if err != nil {
		return toFile
	}
	return r
}

// c10Spelling renders the path text of a directive of file i.
func c10Spelling(root string, i int, d IncDir) string {
	switch d.Kind {
	case "dangling":
		return fmt.Sprintf("nosuch%d.journal", d.Target)
	case "glob":
		return d.Pattern
	}
	from, to := c10Path(root, i), c10Path(root, d.Target)
	switch d.Form {
	case "abs":
		return to
	case "home":
		return "~/" + c10Names[d.Target]
	case "absdot": // absolute, but not in canonical form
		return filepath.Dir(to) + "/./" + filepath.Base(to)
	case "absup":
		return root + "/sub/../" + strings.TrimPrefix(to, root+"/")
	case "dot":
		r := relPath(from, to)
		if !strings.HasPrefix(r, "..") {
			return "./" + r
		}
		return r
	}
	return relPath(from, to)
}

func c10FileText(root string, c *C10Case, i int) string {
	var sb strings.Builder
	for k := 0; k < c10Pad*i; k++ {
		sb.WriteString("; pad\n")
	}
	for _, d := range c.Dirs[i] {
		sb.WriteString("include " + c10Spelling(root, i, d) + "\n")
	}
	sb.WriteString(fmt.Sprintf("\n2024-01-%02d tx in file %d\n    expenses:f%d  1 EUR\n    assets:cash\n", i+1, i, i))
	if c.Oversized == i {
		sb.WriteString("; " + strings.Repeat("x", 6000) + "\n")
	}
	return sb.String()
}

const c10SizeLimit = 3000

// c10GlobMatches is the harness' own expansion of the few glob shapes generated.
func c10GlobMatches(c *C10Case, i int, pat string) []int {
	inSub := func(k int) bool { return strings.HasPrefix(c10Names[k], "sub/") }
	base := func(k int) string { return filepath.Base(c10Names[k]) }
	var out []int
	for k := 0; k < c.N; k++ {
		if k == i {
			continue
		}
		ok := false
		switch pat {
		case "*.journal":
			ok = inSub(k) == inSub(i)
		case "**/*.journal":
			ok = inSub(k) || !inSub(i)
		case "sub/*.journal":
			ok = !inSub(i) && inSub(k)
		case "[ab].journal":
			ok = inSub(k) == inSub(i) && (base(k) == "a.journal" || base(k) == "b.journal")
		case "?.journal":
			ok = inSub(k) == inSub(i) && len(base(k)) == len("a.journal")
		case "nomatch*.journal":
			ok = false
		case "../*.journal":
			ok = inSub(i) && !inSub(k)
		case "~/*.journal": // HOME is the case's directory
			ok = !inSub(k)
		case "~/sub/?.journal":
			ok = inSub(k) && len(base(k)) == len("a.journal")
		}
		if ok {
			out = append(out, k)
		}
	}
	sort.Slice(out, func(a, b int) bool { return c10Names[out[a]] < c10Names[out[b]] })
	return out
}

type c10Err struct {
	File, Dir int // directive Dir of file File
	Target    int // -1 for dangling / glob-level
	Cats      []string
}

type c10Expect struct {
	Loaded    map[int]bool
	Order     []int
	Errs      []c10Err
	Ambiguous bool // a depth limit interacts with multi-path reachability
	ZeroGlobs map[[2]int]bool
	Features  map[string]bool
}

func c10Reference(c *C10Case) *c10Expect {
	ex := &c10Expect{Loaded: map[int]bool{}, ZeroGlobs: map[[2]int]bool{}, Features: map[string]bool{}}
	limit := c.DepthLimit
	if limit <= 0 {
		limit = 50
	}
	stack := map[int]bool{}
	loaded := map[int]bool{0: true}
	tooDeepTargets := map[int]bool{}
	var visit func(u, level int)
	visit = func(u, level int) {
		stack[u] = true
		for di, d := range c.Dirs[u] {
			var targets []int
			switch d.Kind {
			case "dangling":
				cats := []string{"missing"}
				if level+1 >= limit {
					cats = append(cats, "toodeep") // both hold; either report is correct
				}
				ex.Errs = append(ex.Errs, c10Err{u, di, -1, cats})
				ex.Features["dangling"] = true
				continue
			case "glob":
				ex.Features["glob"] = true
				targets = c10GlobMatches(c, u, d.Pattern)
				if len(targets) == 0 {
					ex.ZeroGlobs[[2]int{u, di}] = true
					continue
				}
			default:
				targets = []int{d.Target}
			}
			for _, v := range targets {
				if stack[v] {
					if d.Kind == "glob" && v == u {
						continue // the including file is never a match of its own glob
					}
					ex.Errs = append(ex.Errs, c10Err{u, di, v, []string{"cycle"}})
					if v == u {
						ex.Features["selfloop"] = true
					} else {
						ex.Features["cycle"] = true
					}
					continue
				}
				if loaded[v] {
					ex.Features["diamond"] = true
					continue
				}
				var cats []string
				if level+1 >= limit {
					cats = append(cats, "toodeep")
				}
				if c.Oversized == v {
					cats = append(cats, "oversized")
				}
				if len(cats) > 0 {
					ex.Errs = append(ex.Errs, c10Err{u, di, v, cats})
					if level+1 >= limit {
						tooDeepTargets[v] = true
					}
					continue
				}
				loaded[v] = true
				ex.Loaded[v] = true
				ex.Order = append(ex.Order, v)
				visit(v, level+1)
			}
		}
		delete(stack, u)
	}
	visit(0, 0)
	// A file refused as too deep on one path: whether it is (or could have been)
	// reached on another path depends on traversal order details the property
	// does not fix; such cases are judged only by the weak clauses.
	for v := range tooDeepTargets {
		cnt := 0
		for u := 0; u < c.N; u++ {
			for di, d := range c.Dirs[u] {
				switch d.Kind {
				case "file":
					if d.Target == v {
						cnt++
					}
				case "glob":
					for _, m := range c10GlobMatches(c, u, d.Pattern) {
						if m == v {
							cnt++
						}
					}
				}
				_ = di
			}
		}
		if cnt > 1 {
			ex.Ambiguous = true
		}
	}
	return ex
}

func c10Cat(e include.LoadError) string {
	switch e.Kind {
	case include.ErrorFileNotFound, include.ErrorReadError:
		return "missing"
	case include.ErrorFileTooLarge:
		return "oversized"
	case include.ErrorCycleDetected:
		if strings.Contains(e.Message, "depth") {
			return "toodeep"
		}
		return "cycle"
	case include.ErrorParseError:
		return "parse"
	case include.ErrorPathTraversal:
		return "traversal"
	}
	return "other"
}

var c10Seq int

func c10Check(c *C10Case) []ev.Discrepancy {
	c10Seq++
	root := filepath.Join(scratch(), fmt.Sprintf("c10-%d", c10Seq))
	defer os.RemoveAll(root)
	_ = os.MkdirAll(filepath.Join(root, "sub"), 0o755)
	oldHome := os.Getenv("HOME")
	os.Setenv("HOME", root)
	defer os.Setenv("HOME", oldHome)
	texts := make([]string, c.N)
	for i := 0; i < c.N; i++ {
		texts[i] = c10FileText(root, c, i)
		if err := os.WriteFile(c10Path(root, i), []byte(texts[i]), 0o644); err != nil {
			panic(err)
		}
	}
	ex := c10Reference(c)

	l := include.NewLoader()
	if c.Warm {
		if c.FromContent {
			_, _ = l.LoadFromContent(c10Path(root, 0), texts[0])
		} else {
			_, _ = l.Load(c10Path(root, 0))
		}
	}
	lim := include.Limits{}
	if c.DepthLimit > 0 {
		lim.MaxIncludeDepth = c.DepthLimit
	}
	if c.Oversized >= 0 {
		lim.MaxFileSizeBytes = c10SizeLimit
	}
	l.SetLimits(lim)

	type res struct {
		r    *include.ResolvedJournal
		errs []include.LoadError
	}
	done := make(chan res, 1)
	go func() {
		var r *include.ResolvedJournal
		var errs []include.LoadError
		if c.FromContent {
			r, errs = l.LoadFromContent(c10Path(root, 0), texts[0])
		} else {
			r, errs = l.Load(c10Path(root, 0))
		}
		done <- res{r, errs}
	}()
	var got res
	select {
	case got = <-done:
	case <-time.After(60 * time.Second):
		return []ev.Discrepancy{ev.D("c10.terminates", "load did not return within 60 s")}
	}
	var ds []ev.Discrepancy
	if got.r == nil {
		return []ev.Discrepancy{ev.D("c10.result", "nil result, errors %v", got.errs)}
	}
	idx := map[string]int{}
	for i := 0; i < c.N; i++ {
		idx[c10Path(root, i)] = i
	}
	// each once, inside the workspace
	seen := map[int]bool{}
	for _, p := range got.r.FileOrder {
		i, ok := idx[p]
		if !ok {
			ds = append(ds, ev.D("c10.files.unknown", "FileOrder holds %q which is not a file of the case", p))
			continue
		}
		if seen[i] {
			ds = append(ds, ev.D("c10.files.once", "file %d appears twice in FileOrder %v", i, got.r.FileOrder))
		}
		seen[i] = true
		if _, ok := got.r.Files[p]; !ok {
			ds = append(ds, ev.D("c10.files.order-vs-map", "FileOrder entry %q has no journal in Files", p))
		}
	}
	for p := range got.r.Files {
		i, ok := idx[p]
		if !ok {
			ds = append(ds, ev.D("c10.files.unknown", "Files holds %q which is not a file of the case", p))
			continue
		}
		if !seen[i] {
			ds = append(ds, ev.D("c10.files.order-vs-map", "Files entry %d missing from FileOrder", i))
		}
	}
	if seen[0] {
		ds = append(ds, ev.D("c10.files.root", "the root itself is listed among its included files"))
	}
	// every non-parse error sits on an include directive line of some file
	dirAt := map[int][2]int{} // 1-based line -> (file, directive)
	for u := 0; u < c.N; u++ {
		for di := range c.Dirs[u] {
			dirAt[c10Pad*u+di+1] = [2]int{u, di}
		}
	}
	type key struct {
		f, d int
		cat  string
	}
	gotErrs := map[key]int{}
	for _, e := range got.errs {
		cat := c10Cat(e)
		if cat == "parse" {
			ds = append(ds, ev.D("c10.noparse", "parse error in a generated file: %s", e.Message))
			continue
		}
		fd, ok := dirAt[e.Range.Start.Line]
		if !ok {
			ds = append(ds, ev.D("c10.error.on-directive", "%s error %q is not on a line holding an include directive (line %d)", cat, e.Message, e.Range.Start.Line))
			continue
		}
		gotErrs[key{fd[0], fd[1], cat}]++
	}
	if ex.Ambiguous {
		return ds
	}
	// reachability
	for i := 1; i < c.N; i++ {
		if ex.Loaded[i] && !seen[i] {
			ds = append(ds, ev.D("c10.files.missing", "file %d (%s) is reachable but was not loaded; got %v", i, c10Names[i], got.r.FileOrder))
		}
		if !ex.Loaded[i] && seen[i] {
			ds = append(ds, ev.D("c10.files.extra", "file %d (%s) was loaded but is not reachable within the limits", i, c10Names[i]))
		}
	}
	// exact verdicts
	wantErrs := map[[2]int][]c10Err{}
	for _, e := range ex.Errs {
		k := [2]int{e.File, e.Dir}
		wantErrs[k] = append(wantErrs[k], e)
	}
	for k, es := range wantErrs {
		if !seen[k[0]] && k[0] != 0 {
			continue
		}
		for _, e := range es {
			matched := false
			for _, cat := range e.Cats {
				kk := key{k[0], k[1], cat}
				if gotErrs[kk] > 0 {
					gotErrs[kk]--
					matched = true
					break
				}
			}
			if !matched {
				ds = append(ds, ev.D("c10.verdict.missing."+e.Cats[0], "directive %d of file %d (-> %d) should carry a %v error; errors: %s", k[1], k[0], e.Target, e.Cats, c10ErrStr(got.errs)))
			}
		}
	}
	for k, n := range gotErrs {
		if n <= 0 {
			continue
		}
		if ex.ZeroGlobs[[2]int{k.f, k.d}] && k.cat == "missing" {
			continue // whether a glob matching nothing is an error is not fixed by the property
		}
		ds = append(ds, ev.D("c10.verdict.spurious."+k.cat, "directive %d of file %d carries an unexpected %s error; errors: %s", k.d, k.f, k.cat, c10ErrStr(got.errs)))
	}
	return ds
}

func c10ErrStr(es []include.LoadError) string {
	var parts []string
	for _, e := range es {
		parts = append(parts, fmt.Sprintf("{%s line %d: %s}", c10Cat(e), e.Range.Start.Line, strings.ReplaceAll(e.Message, scratch(), "")))
	}
	return strings.Join(parts, " ")
}

func c10Nontrivial(c *C10Case) (bool, []string) {
	ex := c10Reference(c)
	var cls []string
	for f := range ex.Features {
		cls = append(cls, f)
	}
	sort.Strings(cls)
	if c.DepthLimit > 0 {
		cls = append(cls, "depthlimit")
	}
	if c.Oversized >= 0 {
		cls = append(cls, "oversized")
	}
	if ex.Ambiguous {
		cls = append(cls, "excluded_ambiguous_depth")
	}
	if c.FromContent {
		cls = append(cls, "fromcontent")
	}
	return len(ex.Features) > 0, cls
}

func c10FromMatrix(n int, m uint32, reverse bool) *C10Case {
	c := &C10Case{N: n, Oversized: -1}
	for i := 0; i < n; i++ {
		var ds []IncDir
		for j := 0; j < n; j++ {
			if m&(1<<(uint(i*n+j))) != 0 {
				ds = append(ds, IncDir{Kind: "file", Target: j, Form: "rel"})
			}
		}
		if reverse {
			for a, b := 0, len(ds)-1; a < b; a, b = a+1, b-1 {
				ds[a], ds[b] = ds[b], ds[a]
			}
		}
		c.Dirs = append(c.Dirs, ds)
	}
	return c
}

var recC10 = ev.New("C10")

func c10Run(c *C10Case) []ev.Discrepancy {
	ds := c10Check(c)
	nt, cls := c10Nontrivial(c)
	recC10.Case(nt, mustJSON(c), cls...)
	if nt && recC10.WantSample() {
		recC10.Sample(c)
	}
	return ds
}

// TestC10Enum enumerates every directed graph on <= 3 files (quick) and on 4
// files in two directive orders (thorough), shard i taking matrices = i mod shards.
func TestC10Enum(t *testing.T) {
	defer recC10.Flush()
	shard, shards := envInt("VERIF_SHARD", 0), envInt("VERIF_SHARDS", 1)
	maxN := 3
	if tier() == "thorough" {
		maxN = 4
	}
	count := 0
	for n := 1; n <= maxN; n++ {
		total := uint32(1) << uint(n*n)
		for m := uint32(0); m < total; m++ {
			if int(m)%shards != shard {
				continue
			}
			orders := []bool{false}
			if n == 4 {
				orders = []bool{false, true}
			}
			for _, rev := range orders {
				for _, fc := range []bool{false, true} {
					if fc && n == 4 && m%8 != 0 {
						continue
					}
					c := c10FromMatrix(n, m, rev)
					c.FromContent = fc
					count++
					if ds := c10Run(c); len(ds) > 0 {
						recC10.Fail("c10", c, ds)
						t.Fatalf("c10 enum n=%d m=%d: [%s] %s", n, m, ds[0].Assertion, ds[0].Detail)
					}
				}
			}
		}
	}
	recC10.Set("enumerated_graph_cases", count)
	recC10.Set("exhaustive_subspace", fmt.Sprintf("all directed graphs (self-loops included) on 1..%d files, relative include form, ascending directive order%s", maxN, map[bool]string{true: " and descending order for 4 files", false: ""}[maxN == 4]))
}

func genC10(t *rapid.T) *C10Case {
	n := rapid.IntRange(2, 5).Draw(t, "n")
	c := &C10Case{N: n, Oversized: -1}
	globs := []string{"*.journal", "**/*.journal", "sub/*.journal", "[ab].journal", "?.journal", "nomatch*.journal", "../*.journal", "~/*.journal", "~/sub/?.journal"}
	for i := 0; i < n; i++ {
		k := rapid.IntRange(0, 4).Draw(t, "ndirs")
		var ds []IncDir
		for j := 0; j < k; j++ {
			switch rapid.IntRange(0, 9).Draw(t, "kind") {
			case 0:
				ds = append(ds, IncDir{Kind: "dangling", Target: j})
			case 1, 2:
				ds = append(ds, IncDir{Kind: "glob", Pattern: rapid.SampledFrom(globs).Draw(t, "pat")})
			default:
				ds = append(ds, IncDir{Kind: "file", Target: rapid.IntRange(0, n-1).Draw(t, "target"),
					Form: rapid.SampledFrom([]string{"rel", "rel", "dot", "abs", "home", "absdot", "absup"}).Draw(t, "form")})
			}
		}
		c.Dirs = append(c.Dirs, ds)
	}
	if rapid.IntRange(0, 2).Draw(t, "haslimit") == 0 {
		c.DepthLimit = rapid.IntRange(1, 5).Draw(t, "depth")
	}
	if rapid.IntRange(0, 3).Draw(t, "hasbig") == 0 {
		c.Oversized = rapid.IntRange(1, n-1).Draw(t, "big")
	}
	c.FromContent = rapid.Bool().Draw(t, "fromcontent")
	if c.DepthLimit > 0 || c.Oversized >= 0 {
		c.Warm = rapid.Bool().Draw(t, "warm")
	}
	return c
}

func TestC10Rand(t *testing.T) {
	defer recC10.Flush()
	rapid.Check(t, func(t *rapid.T) {
		c := genC10(t)
		report(t, recC10, "c10", c, c10Run(c))
	})
}

func init() {
	replayers["c10"] = func(raw json.RawMessage) ([]ev.Discrepancy, error) {
		var c C10Case
		if err := json.Unmarshal(raw, &c); err != nil {
			return nil, err
		}
		return c10Check(&c), nil
	}
}
