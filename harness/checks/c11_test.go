package checks

// C11 — include loading is independent of cache history.
// Oracle: a fresh Loader on the same files (differential, DESIGN.md 3.6).

import (
	"encoding/json"
	"fmt"
	"os"
	"path/filepath"
	"reflect"
	"sort"
	"strings"
	"testing"

	"github.com/juev/hledger-lsp/internal/include"
	"github.com/juev/hledger-lsp/verifharness/ev"
	"pgregory.net/rapid"
)

type C11Op struct {
	Op   string   `json:"op"` // load | loadc | edit | clear | remove | restore | retouch (one character changes; length and modification time stay)
	Root int      `json:"root,omitempty"`
	File int      `json:"file,omitempty"`
	Dirs []IncDir `json:"dirs,omitempty"`
	Body int      `json:"body,omitempty"`
}

type C11Case struct {
	N     int        `json:"n"`
	Init  [][]IncDir `json:"init"`
	Body  []int      `json:"body"`
	Ops   []C11Op    `json:"ops"`
	Depth int        `json:"depth,omitempty"` // >0: include depth limit of the shared and of every fresh loader
}

var c11Bodies = []string{
	"2024-01-%02d tx in file %d\n    expenses:f%d  1 EUR\n    assets:cash\n",
	"2024-02-%02d other tx %d\n    expenses:g%d  2 USD\n    assets:bank\n\naccount assets:bank\n",
	"2024-03-%02d broken %d\n    expenses:h%d  3 EUR\n    assets:cash  = = =\n  @@\n",
}

func c11FileText(root string, n, i int, dirs []IncDir, body int) string {
	var sb strings.Builder
	for k := 0; k < c10Pad*i; k++ {
		sb.WriteString("; pad\n")
	}
	for _, d := range dirs {
		sb.WriteString("include " + c10Spelling(root, i, d) + "\n")
	}
	sb.WriteString("\n" + fmt.Sprintf(c11Bodies[body%len(c11Bodies)], i+1, i, i))
	return sb.String()
}

type c11Snapshot struct {
	Nil     bool
	Order   []string
	Files   map[string]any
	Primary any
	Errs    []string
}

func c11Snap(root string, r *include.ResolvedJournal, errs []include.LoadError) c11Snapshot {
	s := c11Snapshot{Files: map[string]any{}}
	if r == nil {
		s.Nil = true
	} else {
		s.Order = append([]string{}, r.FileOrder...)
		for p, j := range r.Files {
			s.Files[p] = j
		}
		s.Primary = r.Primary
	}
	for _, e := range errs {
		s.Errs = append(s.Errs, fmt.Sprintf("kind=%d path=%s msg=%s range=%d:%d-%d:%d in=%s via=%d:%d", e.Kind, strings.ReplaceAll(e.Path, root, ""),
			strings.ReplaceAll(e.Message, root, ""), e.Range.Start.Line, e.Range.Start.Column, e.Range.End.Line, e.Range.End.Column,
			strings.ReplaceAll(e.File, root, ""), e.Via.Start.Line, e.Via.Start.Column))
	}
	sort.Strings(s.Errs)
	return s
}

func c11Diff(root string, step int, op C11Op, a, b c11Snapshot) []ev.Discrepancy {
	var ds []ev.Discrepancy
	pre := fmt.Sprintf("step %d (%s root %d): ", step, op.Op, op.Root)
	if a.Nil != b.Nil {
		return []ev.Discrepancy{ev.D("c11.result.nil", pre+"shared loader nil=%v, fresh loader nil=%v", a.Nil, b.Nil)}
	}
	short := func(ps []string) []string {
		var o []string
		for _, p := range ps {
			o = append(o, strings.TrimPrefix(p, root+"/"))
		}
		return o
	}
	if !reflect.DeepEqual(a.Order, b.Order) {
		ds = append(ds, ev.D("c11.fileorder", pre+"FileOrder %v, fresh loader gives %v", short(a.Order), short(b.Order)))
	}
	for p, j := range b.Files {
		aj, ok := a.Files[p]
		if !ok {
			ds = append(ds, ev.D("c11.files.missing", pre+"file %s missing from Files (fresh loader has it)", strings.TrimPrefix(p, root+"/")))
			continue
		}
		if !reflect.DeepEqual(aj, j) {
			ds = append(ds, ev.D("c11.files.content", pre+"tree of %s differs from the tree a fresh loader builds from the current file", strings.TrimPrefix(p, root+"/")))
		}
	}
	for p := range a.Files {
		if _, ok := b.Files[p]; !ok {
			ds = append(ds, ev.D("c11.files.extra", pre+"file %s in Files but a fresh loader does not load it", strings.TrimPrefix(p, root+"/")))
		}
	}
	if !reflect.DeepEqual(a.Primary, b.Primary) {
		ds = append(ds, ev.D("c11.primary", pre+"primary tree differs"))
	}
	if !reflect.DeepEqual(a.Errs, b.Errs) {
		ds = append(ds, ev.D("c11.errors", pre+"errors %v, fresh loader reports %v", a.Errs, b.Errs))
	}
	return ds
}

var c11Seq int

func c11Check(c *C11Case) (ds []ev.Discrepancy, classes []string) {
	c11Seq++
	root := filepath.Join(scratch(), fmt.Sprintf("c11-%d", c11Seq))
	defer os.RemoveAll(root)
	_ = os.MkdirAll(filepath.Join(root, "sub"), 0o755)
	oldHome := os.Getenv("HOME")
	os.Setenv("HOME", root)
	defer os.Setenv("HOME", oldHome)
	dirs := make([][]IncDir, c.N)
	body := make([]int, c.N)
	rev := make([]int, c.N) // a one-digit revision mark in a closing comment line
	text := func(i int) string {
		return c11FileText(root, c.N, i, dirs[i], body[i]) + fmt.Sprintf("; rev %d\n", rev[i]%10)
	}
	write := func(i int) {
		if err := os.WriteFile(c10Path(root, i), []byte(text(i)), 0o644); err != nil {
			panic(err)
		}
	}
	for i := 0; i < c.N; i++ {
		dirs[i], body[i] = c.Init[i], c.Body[i]
		write(i)
	}
	newLoader := func() *include.Loader {
		l := include.NewLoader()
		if c.Depth > 0 {
			lim := include.DefaultLimits()
			lim.MaxIncludeDepth = c.Depth
			l.SetLimits(lim)
		}
		return l
	}
	shared := newLoader()
	gone := map[int]bool{}
	loads, edits := 0, 0
	cls := map[string]bool{}
	for si, op := range c.Ops {
		switch op.Op {
		case "edit":
			dirs[op.File], body[op.File] = op.Dirs, op.Body
			gone[op.File] = false
			write(op.File)
			shared.InvalidateFile(c10Path(root, op.File))
			edits++
			if loads > 0 {
				cls["edit-between-loads"] = true
			}
		case "retouch":
			// an edit that a look at size and modification time does not show (a restored copy, a tool
			// that keeps time stamps): the loader is told all the same
			if gone[op.File] {
				continue
			}
			st, serr := os.Stat(c10Path(root, op.File))
			rev[op.File]++
			write(op.File)
			if serr == nil {
				_ = os.Chtimes(c10Path(root, op.File), st.ModTime(), st.ModTime())
			}
			shared.InvalidateFile(c10Path(root, op.File))
			edits++
			if loads > 0 {
				cls["edit-between-loads"] = true
				cls["edit-keeping-size-and-time"] = true
			}
		case "remove":
			// the file disappears from disk (a change on disk like any other), and the loader is told
			_ = os.Remove(c10Path(root, op.File))
			gone[op.File] = true
			shared.InvalidateFile(c10Path(root, op.File))
			cls["file-removed"] = true
		case "restore":
			if gone[op.File] {
				gone[op.File] = false
				write(op.File)
				shared.InvalidateFile(c10Path(root, op.File))
				cls["file-restored"] = true
			}
		case "clear":
			shared.ClearCache()
			cls["clear"] = true
		case "load", "loadc":
			p := c10Path(root, op.Root)
			fresh := newLoader()
			var r1, r2 *include.ResolvedJournal
			var e1, e2 []include.LoadError
			if op.Op == "load" {
				r1, e1 = shared.Load(p)
				r2, e2 = fresh.Load(p)
			} else {
				txt := text(op.Root)
				r1, e1 = shared.LoadFromContent(p, txt)
				r2, e2 = fresh.LoadFromContent(p, txt)
			}
			loads++
			if loads >= 2 {
				cls["repeat-load"] = true
			}
			if r2 != nil && len(r2.FileOrder) >= 2 {
				cls["tree>=2"] = true
			}
			ds = append(ds, c11Diff(root, si, op, c11Snap(root, r1, e1), c11Snap(root, r2, e2))...)
			if len(ds) > 0 {
				return ds, keys(cls)
			}
		}
	}
	return ds, keys(cls)
}

func keys(m map[string]bool) []string {
	var o []string
	for k := range m {
		o = append(o, k)
	}
	sort.Strings(o)
	return o
}

func genDirs(t *rapid.T, n int, max int) []IncDir {
	k := rapid.IntRange(0, max).Draw(t, "ndirs")
	var ds []IncDir
	globs := []string{"*.journal", "**/*.journal", "sub/*.journal", "[ab].journal"}
	for j := 0; j < k; j++ {
		switch rapid.IntRange(0, 11).Draw(t, "kind") {
		case 0:
			ds = append(ds, IncDir{Kind: "dangling", Target: j})
		case 1:
			ds = append(ds, IncDir{Kind: "glob", Pattern: rapid.SampledFrom(globs).Draw(t, "pat")})
		default:
			ds = append(ds, IncDir{Kind: "file", Target: rapid.IntRange(0, n-1).Draw(t, "target"),
				Form: rapid.SampledFrom([]string{"rel", "rel", "rel", "abs", "home", "absdot", "absup"}).Draw(t, "form")})
		}
	}
	return ds
}

func genC11(t *rapid.T) *C11Case {
	n := rapid.IntRange(2, 5).Draw(t, "n")
	c := &C11Case{N: n}
	chain := rapid.Bool().Draw(t, "chain")
	for i := 0; i < n; i++ {
		if chain && i+1 < n {
			// a deep chain first: the shape where a cached file has includes of its own
			c.Init = append(c.Init, append([]IncDir{{Kind: "file", Target: i + 1, Form: "rel"}}, genDirs(t, n, 1)...))
		} else {
			c.Init = append(c.Init, genDirs(t, n, 3))
		}
		c.Body = append(c.Body, rapid.IntRange(0, 2).Draw(t, "body"))
	}
	c.Depth = rapid.SampledFrom([]int{0, 0, 0, 2, 3, 4}).Draw(t, "depthlimit")
	steps := rapid.IntRange(2, 6).Draw(t, "steps")
	for s := 0; s < steps; s++ {
		switch rapid.IntRange(0, 11).Draw(t, "op") {
		case 10:
			c.Ops = append(c.Ops, C11Op{Op: "remove", File: rapid.IntRange(0, n-1).Draw(t, "file")})
		case 11:
			c.Ops = append(c.Ops, C11Op{Op: "restore", File: rapid.IntRange(0, n-1).Draw(t, "file")})
		case 0:
			c.Ops = append(c.Ops, C11Op{Op: "clear"})
		case 3:
			c.Ops = append(c.Ops, C11Op{Op: "retouch", File: rapid.IntRange(0, n-1).Draw(t, "file")})
		case 1, 2:
			c.Ops = append(c.Ops, C11Op{Op: "edit", File: rapid.IntRange(0, n-1).Draw(t, "file"), Dirs: genDirs(t, n, 3), Body: rapid.IntRange(0, 2).Draw(t, "body")})
		case 4, 5:
			c.Ops = append(c.Ops, C11Op{Op: "loadc", Root: rapid.IntRange(0, n-1).Draw(t, "root")})
		default:
			c.Ops = append(c.Ops, C11Op{Op: "load", Root: rapid.IntRange(0, n-1).Draw(t, "root")})
		}
	}
	return c
}

var recC11 = ev.New("C11")

func TestC11(t *testing.T) {
	defer recC11.Flush()
	rapid.Check(t, func(t *rapid.T) {
		c := genC11(t)
		ds, cls := c11Check(c)
		nt := false
		for _, k := range cls {
			if k == "repeat-load" || k == "edit-between-loads" {
				nt = true
			}
		}
		cls = append(cls, fmt.Sprintf("depth-limit:%d", c.Depth))
		recC11.Case(nt, mustJSON(c), cls...)
		if nt && recC11.WantSample() {
			recC11.Sample(c)
		}
		report(t, recC11, "c11", c, ds)
	})
}

func init() {
	replayers["c11"] = func(raw json.RawMessage) ([]ev.Discrepancy, error) {
		var c C11Case
		if err := json.Unmarshal(raw, &c); err != nil {
			return nil, err
		}
		ds, _ := c11Check(&c)
		return ds, nil
	}
}
