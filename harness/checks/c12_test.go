package checks

// C12 — the incrementally maintained workspace view equals a rebuild.
// Oracle: a fresh Workspace initialised on the files as last written (DESIGN.md 3.6).

import (
	"encoding/json"
	"fmt"
	"os"
	"path/filepath"
	"reflect"
	"sort"
	"strings"
	"testing"

	"pgregory.net/rapid"

	"github.com/juev/hledger-lsp/internal/analyzer"
	"github.com/juev/hledger-lsp/internal/ast"
	"github.com/juev/hledger-lsp/internal/formatter"
	"github.com/juev/hledger-lsp/internal/include"
	"github.com/juev/hledger-lsp/internal/workspace"
	"github.com/juev/hledger-lsp/verifharness/ev"
	"github.com/juev/hledger-lsp/verifharness/gen"
	m "github.com/juev/hledger-lsp/verifharness/model"
)

type C12Op struct {
	File    int        `json:"file"`
	Journal *m.Journal `json:"journal"`
	// Unsaved: the text reaches the workspace (UpdateFile, as didOpen / didChange do) before it is
	// written to the file; the step that follows saves it. The views are compared after the save.
	Unsaved bool `json:"unsaved,omitempty"`
}

type C12Case struct {
	Init []*m.Journal `json:"init"` // file i is gen.WSNames[i]
	Ops  []C12Op      `json:"ops"`
	// include limits in force from the start, for the workspace under test and for the fresh one
	// (0: the default): a file deeper than Depth, or longer than MaxSize bytes, is no member
	Depth   int `json:"depth,omitempty"`
	MaxSize int `json:"max_size,omitempty"`
	// Late files (indices len(Init) .. len(Init)+Late-1) do not exist at first: the first update that
	// names one creates it. Include directives may name them before (dangling) or match them by pattern.
	Late int `json:"late,omitempty"`
	// RootName != "": the first file carries this name instead of main.journal, so that the workspace has
	// to find its root journal by the include graph of the directory. The name sorts before all others and
	// no file includes it: it is the root at every moment, for the workspace under test and for a fresh one.
	RootName string `json:"root_name,omitempty"`
}

func (c *C12Case) name(i int) string {
	if i == 0 && c.RootName != "" {
		return c.RootName
	}
	return gen.WSNames[i]
}

func (c *C12Case) loader() *include.Loader {
	l := include.NewLoader()
	if c.Depth > 0 || c.MaxSize > 0 {
		l.SetLimits(include.Limits{MaxIncludeDepth: c.Depth, MaxFileSizeBytes: int64(c.MaxSize)})
	}
	return l
}

func txEntryKeys(es []workspace.TransactionEntry) []string {
	var out []string
	for _, e := range es {
		out = append(out, fmt.Sprintf("%s|%v|%v|%s|%s", e.FilePath, e.Range, e.Date, e.Payee, e.Description))
	}
	sort.Strings(out)
	return out
}

func setOf(m map[string]bool) []string { return keys(m) }

func c12Compare(root string, step int, inc, fresh *workspace.Workspace) []ev.Discrepancy {
	var ds []ev.Discrepancy
	pre := fmt.Sprintf("after step %d: ", step)
	add := func(view, format string, a ...any) {
		ds = append(ds, ev.D("c12."+view, pre+strings.ReplaceAll(fmt.Sprintf(format, a...), root+"/", "")))
	}
	ri, rf := inc.GetResolved(), fresh.GetResolved()
	members := func(r *include.ResolvedJournal) []string {
		var o []string
		if r != nil {
			for p := range r.Files {
				o = append(o, p)
			}
		}
		sort.Strings(o)
		return o
	}
	mi, mf := members(ri), members(rf)
	if !reflect.DeepEqual(mi, mf) {
		add("members", "member files %v, a rebuild has %v", mi, mf)
		return ds
	}
	if ri != nil && rf != nil {
		oi := append([]string{}, ri.FileOrder...)
		sort.Strings(oi)
		if strings.Join(oi, "\n") != strings.Join(mi, "\n") {
			add("fileorder", "FileOrder %v is not a permutation of the member files %v", ri.FileOrder, mi)
		}
		if !reflect.DeepEqual(ri.Primary, rf.Primary) {
			add("trees.primary", "root journal tree differs from a rebuild")
		}
		for _, p := range mf {
			if !reflect.DeepEqual(ri.Files[p], rf.Files[p]) {
				add("trees.file", "tree of %s differs from a rebuild", p)
			}
		}
	}
	si, sf := inc.IndexSnapshot(), fresh.IndexSnapshot()
	cmp := func(view string, a, b any) {
		if !reflect.DeepEqual(a, b) {
			add(view, "%s: incremental %v, rebuild %v", view, a, b)
		}
	}
	allOf := func(ai *analyzer.AccountIndex) []string {
		if ai == nil {
			return nil
		}
		return append([]string{}, ai.All...)
	}
	prefOf := func(ai *analyzer.AccountIndex) map[string][]string {
		if ai == nil || len(ai.ByPrefix) == 0 {
			return map[string][]string{}
		}
		return ai.ByPrefix
	}
	norm := func(s []string) []string {
		if len(s) == 0 {
			return nil
		}
		return s
	}
	normM := func(mm map[string]int) map[string]int {
		if len(mm) == 0 {
			return map[string]int{}
		}
		return mm
	}
	cmp("accounts", norm(allOf(si.Accounts)), norm(allOf(sf.Accounts)))
	cmp("accounts.byprefix", prefOf(si.Accounts), prefOf(sf.Accounts))
	cmp("payees", norm(si.Payees), norm(sf.Payees))
	cmp("commodities", norm(si.Commodities), norm(sf.Commodities))
	cmp("tags", norm(si.Tags), norm(sf.Tags))
	cmp("dates", norm(si.Dates), norm(sf.Dates))
	tv := func(mm map[string][]string) map[string][]string {
		o := map[string][]string{}
		for k, v := range mm {
			if len(v) > 0 {
				o[k] = v
			}
		}
		return o
	}
	cmp("tagvalues", tv(si.TagValues), tv(sf.TagValues))
	cmp("counts.accounts", normM(si.AccountCounts), normM(sf.AccountCounts))
	cmp("counts.payees", normM(si.PayeeCounts), normM(sf.PayeeCounts))
	cmp("counts.commodities", normM(si.CommodityCounts), normM(sf.CommodityCounts))
	cmp("counts.tags", normM(si.TagCounts), normM(sf.TagCounts))
	tvc := func(mm map[string]map[string]int) map[string]map[string]int {
		o := map[string]map[string]int{}
		for k, v := range mm {
			if len(v) > 0 {
				o[k] = v
			}
		}
		return o
	}
	cmp("counts.tagvalues", tvc(si.TagValueCounts), tvc(sf.TagValueCounts))
	// transaction index: per key, multiset of entries
	ti, tf := map[string][]string{}, map[string][]string{}
	for k, v := range si.Transactions {
		if len(v) > 0 {
			ti[k] = txEntryKeys(v)
		}
	}
	for k, v := range sf.Transactions {
		if len(v) > 0 {
			tf[k] = txEntryKeys(v)
		}
	}
	cmp("transactions", ti, tf)
	// payee templates: key set exact; each value is the template of one member file
	ki, kf := map[string]bool{}, map[string]bool{}
	for k := range si.PayeeTemplates {
		ki[k] = true
	}
	for k := range sf.PayeeTemplates {
		kf[k] = true
	}
	if !reflect.DeepEqual(setOf(ki), setOf(kf)) {
		add("templates.keys", "payee template keys %v, a rebuild has %v", setOf(ki), setOf(kf))
	} else if rf != nil {
		cands := map[string][][]analyzer.PostingTemplate{}
		if rf.Primary != nil {
			for k, v := range analyzer.CollectPayeeTemplates(rf.Primary) {
				cands[k] = append(cands[k], v)
			}
		}
		for _, j := range rf.Files {
			for k, v := range analyzer.CollectPayeeTemplates(j) {
				cands[k] = append(cands[k], v)
			}
		}
		for k, v := range si.PayeeTemplates {
			ok := false
			for _, c := range cands[k] {
				if reflect.DeepEqual(c, v) {
					ok = true
				}
			}
			if !ok {
				add("templates.value", "template of payee %q (%v) is not the template of any member file", k, v)
			}
		}
	}
	// the property says "equals": where two member files disagree about a payee's template or a
	// commodity's format, the incremental view must let the same file win as a rebuild does
	if len(ds) == 0 && !reflect.DeepEqual(si.PayeeTemplates, sf.PayeeTemplates) {
		for k, v := range sf.PayeeTemplates {
			if !reflect.DeepEqual(si.PayeeTemplates[k], v) {
				add("templates.exact", "template of payee %q is %v, a rebuild has %v (incremental file order %v, rebuild %v)", k, si.PayeeTemplates[k], v, shortOrder(ri), shortOrder(rf))
				break
			}
		}
	}
	cmp("declared.accounts", setOf(inc.GetDeclaredAccounts()), setOf(fresh.GetDeclaredAccounts()))
	cmp("declared.commodities", setOf(inc.GetDeclaredCommodities()), setOf(fresh.GetDeclaredCommodities()))
	fi, ff := inc.GetCommodityFormats(), fresh.GetCommodityFormats()
	fk := func(mm map[string]formatter.NumberFormat) []string {
		var o []string
		for k := range mm {
			o = append(o, k)
		}
		sort.Strings(o)
		return o
	}
	if !reflect.DeepEqual(fk(fi), fk(ff)) {
		add("formats.keys", "commodity format keys %v, a rebuild has %v", fk(fi), fk(ff))
	} else if rf != nil {
		// value must be one of the formats some member file declares for that commodity
		for sym, f := range fi {
			ok := false
			for _, c := range candidateFormats(rf, sym) {
				if reflect.DeepEqual(c, f) {
					ok = true
				}
			}
			if !ok {
				add("formats.value", "format of %q (%+v) is not declared by any member file", sym, f)
			}
		}
	}
	if len(ds) == 0 && !reflect.DeepEqual(fi, ff) {
		for sym, f := range ff {
			if !reflect.DeepEqual(fi[sym], f) {
				add("formats.exact", "format of %q is %+v, a rebuild has %+v (incremental file order %v, rebuild %v)", sym, fi[sym], f, shortOrder(ri), shortOrder(rf))
				break
			}
		}
	}
	return ds
}

func shortOrder(r *include.ResolvedJournal) []string {
	var o []string
	if r != nil {
		for _, p := range r.FileOrder {
			o = append(o, filepath.Base(p))
		}
	}
	return o
}

var c12Seq int

func c12Check(c *C12Case) (ds []ev.Discrepancy, cls []string) {
	c12Seq++
	root := filepath.Join(scratch(), fmt.Sprintf("c12-%d", c12Seq))
	defer os.RemoveAll(root)
	_ = os.MkdirAll(filepath.Join(root, "sub"), 0o755)
	oldHome := os.Getenv("HOME")
	os.Setenv("HOME", root)
	defer os.Setenv("HOME", oldHome)
	n := len(c.Init)
	cur := make([]*m.Journal, n+c.Late)
	write := func(i int) string {
		txt := m.Render(cur[i]).Text
		if err := os.WriteFile(filepath.Join(root, c.name(i)), []byte(txt), 0o644); err != nil {
			panic(err)
		}
		return txt
	}
	for i := range c.Init {
		cur[i] = c.Init[i]
		write(i)
	}
	loader := c.loader()
	inc := workspace.NewWorkspace(root, loader)
	if err := inc.Initialize(); err != nil {
		return []ev.Discrepancy{ev.D("c12.harness", "initialize: %v", err)}, nil
	}
	classes := map[string]bool{}
	includesOf := func(j *m.Journal) string {
		var o []string
		if j == nil {
			return "<no file>"
		}
		for _, e := range j.Entries {
			if e.Dir != nil && e.Dir.Kind == "include" {
				o = append(o, e.Dir.Path)
			}
		}
		return strings.Join(o, ",")
	}
	for si, op := range c.Ops {
		if includesOf(cur[op.File]) != includesOf(op.Journal) {
			classes["include-list-changed"] = true
		}
		before := 0
		if cur[op.File] != nil {
			before = len(m.Render(cur[op.File]).Text)
		} else {
			classes["file-created"] = true
		}
		for _, e := range op.Journal.Entries {
			if e.Dir != nil && e.Dir.Kind == "include" && strings.ContainsAny(e.Dir.Path, "*[?") {
				classes["include-pattern"] = true
			}
		}
		wasThere := cur[op.File] != nil
		cur[op.File] = op.Journal
		path := filepath.Join(root, c.name(op.File))
		if op.Unsaved {
			// the buffer first (a new file is not on disk yet), then the save
			classes["update-before-the-file-is-written"] = true
			if !wasThere {
				classes["new-file-known-before-it-exists"] = true
			}
			inc.UpdateFile(path, m.Render(op.Journal).Text)
		}
		txt := write(op.File)
		if c.MaxSize > 0 && (before > c.MaxSize) != (len(txt) > c.MaxSize) {
			classes["update-crosses-size-limit"] = true
		}
		// what didChange / didSave do
		inc.UpdateFile(path, txt)
		loader.InvalidateFile(path)
		fresh := workspace.NewWorkspace(root, c.loader())
		if err := fresh.Initialize(); err != nil {
			return []ev.Discrepancy{ev.D("c12.harness", "fresh initialize: %v", err)}, keys(classes)
		}
		ds = c12Compare(root, si, inc, fresh)
		if len(ds) > 0 {
			return ds, keys(classes)
		}
	}
	if len(c.Ops) >= 2 {
		classes["updates>=2"] = true
	}
	if c.Depth > 0 {
		classes["depth-limit"] = true
	}
	if c.RootName != "" {
		classes["root-found-by-include-graph"] = true
	}
	if c.MaxSize > 0 {
		classes["size-limit"] = true
	}
	return ds, keys(classes)
}

// c12Tweak returns a copy of j with one small edit that keeps accounts, payees, dates and counts.
func c12Tweak(t *rapid.T, j *m.Journal) *m.Journal {
	var nj m.Journal
	if err := json.Unmarshal(mustJSON(j), &nj); err != nil {
		panic(err)
	}
	var txs []*m.Tx
	for i := range nj.Entries {
		if nj.Entries[i].Tx != nil {
			txs = append(txs, nj.Entries[i].Tx)
		}
	}
	kind := rapid.IntRange(0, 2).Draw(t, "tweakkind")
	if len(txs) == 0 {
		kind = 2
	}
	switch kind {
	case 0: // postings of one transaction in reverse order
		tx := rapid.SampledFrom(txs).Draw(t, "tweaktx")
		for a, b := 0, len(tx.Body)-1; a < b; a, b = a+1, b-1 {
			tx.Body[a], tx.Body[b] = tx.Body[b], tx.Body[a]
		}
	case 1: // commodities of one transaction on the other side
		tx := rapid.SampledFrom(txs).Draw(t, "tweaktx")
		for _, p := range tx.Postings() {
			if p.Amt != nil && p.Amt.Sym != "" {
				p.Amt.Left = !p.Amt.Left
				p.Amt.SymSpace = true
				p.Amt.SignBefore = false
			}
		}
	default: // a comment line in front
		txt := " typed later"
		nj.Entries = append([]m.Entry{{CommentLine: &txt, Blank: 1}}, nj.Entries...)
	}
	return &nj
}

var c12JOpts = gen.JournalOpts{MinEntries: 0, MaxEntries: 4, Directives: true, TopComments: false, Tx: gen.TxOpts{MaxPostings: 3, MaxScale: 2, MaxDigits: 4}}

var recC12 = ev.New("C12")

func TestC12(t *testing.T) {
	defer recC12.Flush()
	sv := newSurvey()
	if surveyOn() {
		defer sv.print()
	}
	rapid.Check(t, func(t *rapid.T) {
		p := profileFor(recC12)
		pools := gen.GenPools(t, p)
		n := rapid.IntRange(2, 5).Draw(t, "nfiles")
		c := &C12Case{}
		for i := 0; i < n; i++ {
			c.Init = append(c.Init, gen.GenFileWithIncludes(t, p, pools, c12JOpts, i, n))
		}
		steps := rapid.IntRange(1, 8).Draw(t, "steps")
		cur := append([]*m.Journal{}, c.Init...)
		total := n
		if n < len(gen.WSNames) && !disabled("c12.late-files") && rapid.IntRange(0, 2).Draw(t, "late") == 0 {
			c.Late = rapid.IntRange(1, len(gen.WSNames)-n).Draw(t, "nlate")
			total = n + c.Late
			for k := 0; k < c.Late; k++ {
				cur = append(cur, nil)
			}
		}
		// include patterns beside the literal paths: what they match changes when files appear
		withPattern := func(f int, j *m.Journal) *m.Journal {
			if disabled("c12.include-pattern") || rapid.IntRange(0, 3).Draw(t, "pattern") != 0 {
				return j
			}
			pats := []string{"*.journal", "sub/*.journal", "[ab].journal", "**/*.journal"}
			if strings.HasPrefix(gen.WSNames[f], "sub/") {
				pats = []string{"*.journal", "../*.journal", "[cd].journal"}
			}
			nj := &m.Journal{NL: j.NL, Entries: append([]m.Entry{}, j.Entries...)}
			at := rapid.IntRange(0, len(nj.Entries)).Draw(t, "patat")
			e := m.Entry{Dir: &m.Directive{Kind: "include", Path: rapid.SampledFrom(pats).Draw(t, "pat")}, Blank: 1}
			nj.Entries = append(nj.Entries[:at:at], append([]m.Entry{e}, nj.Entries[at:]...)...)
			return nj
		}
		if c.Late > 0 || rapid.IntRange(0, 3).Draw(t, "initpattern") == 0 {
			for i := range c.Init {
				c.Init[i] = withPattern(i, c.Init[i])
				cur[i] = c.Init[i]
			}
		}
		for s := 0; s < steps; s++ {
			f := rapid.IntRange(0, total-1).Draw(t, "file")
			var j *m.Journal
			if cur[f] == nil {
				// the file is created
				j = withPattern(f, gen.GenFileWithIncludes(t, p, pools, c12JOpts, f, total))
			} else if k := rapid.IntRange(0, 4).Draw(t, "tweak"); k == 0 {
				// the same journal, said slightly differently: postings in another order, a commodity on
				// the other side of its number, a comment line more — what typing in a file looks like
				j = c12Tweak(t, cur[f])
			} else if rapid.IntRange(0, 2).Draw(t, "bodyonly") == 0 {
				// same include list, other body: the update path that does not refresh the include tree
				j = gen.GenFileIncluding(t, p, pools, c12JOpts, f, gen.IncludeTargets(cur[f], f, total))
			} else {
				j = withPattern(f, gen.GenFileWithIncludes(t, p, pools, c12JOpts, f, total))
			}
			unsaved := !disabled("c12.unsaved-first") && (cur[f] == nil || rapid.IntRange(0, 3).Draw(t, "unsavedfirst") == 0) && rapid.Bool().Draw(t, "unsaved")
			cur[f] = j
			c.Ops = append(c.Ops, C12Op{File: f, Journal: j, Unsaved: unsaved})
		}
		if !disabled("c12.root-by-graph") && rapid.IntRange(0, 3).Draw(t, "rootbygraph") == 0 {
			c.RootName = "00-all.journal"
			// nothing includes the root journal (an include of main.journal would name a file that does not exist)
			strip := func(j *m.Journal) *m.Journal {
				nj := &m.Journal{NL: j.NL}
				for _, e := range j.Entries {
					if e.Dir != nil && e.Dir.Kind == "include" && strings.HasSuffix(e.Dir.Path, "main.journal") {
						continue
					}
					nj.Entries = append(nj.Entries, e)
				}
				return nj
			}
			for i := range c.Init {
				c.Init[i] = strip(c.Init[i])
			}
			for i := range c.Ops {
				c.Ops[i].Journal = strip(c.Ops[i].Journal)
			}
		}
		if !disabled("c12.limits") {
			switch rapid.IntRange(0, 5).Draw(t, "limits") {
			case 0:
				c.Depth = rapid.IntRange(1, 4).Draw(t, "depth")
			case 1:
				// a size that some of the texts exceed and others do not
				var sizes []int
				for _, j := range c.Init {
					sizes = append(sizes, len(m.Render(j).Text))
				}
				for _, op := range c.Ops {
					sizes = append(sizes, len(m.Render(op.Journal).Text))
				}
				c.MaxSize = rapid.SampledFrom(sizes).Draw(t, "maxsize")
			case 2:
				c.Depth = rapid.IntRange(2, 3).Draw(t, "depth2")
				c.MaxSize = len(m.Render(c.Init[rapid.IntRange(0, n-1).Draw(t, "sizeof")]).Text)
			}
		}
		ds, cls := c12Check(c)
		nt := false
		has := map[string]bool{}
		for _, k := range cls {
			has[k] = true
		}
		nt = has["updates>=2"] && has["include-list-changed"]
		recC12.Case(nt, mustJSON(c), cls...)
		recC12.Count("update_steps", int64(len(c.Ops)))
		if nt && recC12.WantSample() {
			recC12.Sample(c)
		}
		if surveyOn() {
			sv.add(cls, ds)
			return
		}
		report(t, recC12, "c12", c, ds)
	})
}

func init() {
	replayers["c12"] = func(raw json.RawMessage) ([]ev.Discrepancy, error) {
		var c C12Case
		if err := json.Unmarshal(raw, &c); err != nil {
			return nil, err
		}
		ds, _ := c12Check(&c)
		return ds, nil
	}
}

// candidateFormats lists the display formats the member files declare for a commodity.
func candidateFormats(r *include.ResolvedJournal, sym string) []formatter.NumberFormat {
	var out []formatter.NumberFormat
	for _, d := range r.AllDirectives() {
		if cd, ok := d.(astCommodityDirective); ok && cd.Commodity.Symbol == sym && cd.Format != "" {
			out = append(out, formatter.ParseNumberFormat(cd.Format))
		}
	}
	return out
}

type astCommodityDirective = ast.CommodityDirective

// TestC12Walk: long walks over a small state space. Four files; every update gives one file a new
// include list (a subset of the other three, in a drawn order) and makes it short or long; a depth
// limit of 2..3 and a size limit between the two lengths are in force. Sequences that need several
// particular steps in a row (a file leaves because of one limit, its surroundings change, it comes
// back under the other) are reached because there is little else to do.
func c12WalkJournal(f int, incs []int, long bool, ver int) *m.Journal {
	j := &m.Journal{NL: "\n"}
	for _, k := range incs {
		j.Entries = append(j.Entries, m.Entry{Dir: &m.Directive{Kind: "include", Path: walkRel(f, k)}})
	}
	acct := fmt.Sprintf("assets:f%dv%d", f, ver)
	// every file declares its own format for EUR and its own postings for the payee "shared":
	// which one the workspace shows depends on the order of the include directives alone
	j.Entries = append(j.Entries,
		// the file's own declarations stay the same from version to version (what changes is what it
		// includes and what it books): nothing in the file itself says that the declarations in force changed
		m.Entry{Dir: &m.Directive{Kind: "account", Account: fmt.Sprintf("assets:f%d", f)}, Blank: 1},
		m.Entry{Dir: &m.Directive{Kind: "commodity", Fmt: &m.Fmt{Sym: "EUR", Space: true, Dec: ".", Decimals: f + 1}}, Blank: 1},
		m.Entry{Tx: &m.Tx{Date: m.Date{Y: 2024, M: 1, D: f + 1, Sep: "-", Pad: true}, Payee: "shared",
			Body: []m.BodyItem{{P: &m.Posting{Account: fmt.Sprintf("expenses:from f%d", f), Amt: &m.Amount{Q: m.Num{Mant: "1"}, Sym: "EUR", SymSpace: true}, Indent: "    ", Sep: "  "}},
				{P: &m.Posting{Account: "equity:opening", Indent: "    ", Sep: "  "}}}}, Blank: 1},
		m.Entry{Tx: &m.Tx{Date: m.Date{Y: 2024, M: 1, D: f + 1, Sep: "-", Pad: true}, Payee: fmt.Sprintf("payee %d", f),
			Body: []m.BodyItem{{P: &m.Posting{Account: acct, Amt: &m.Amount{Q: m.Num{Mant: fmt.Sprint(ver + 1)}, Sym: "EUR", SymSpace: true}, Indent: "    ", Sep: "  "}},
				{P: &m.Posting{Account: "equity:opening", Indent: "    ", Sep: "  "}}}}, Blank: 1})
	if long {
		for i := 0; i < 8; i++ {
			c := " " + strings.Repeat("x", 38)
			j.Entries = append(j.Entries, m.Entry{CommentLine: &c})
		}
	}
	return j
}

func walkRel(from, to int) string {
	a, b := gen.WSNames[from], gen.WSNames[to]
	switch {
	case strings.HasPrefix(a, "sub/") && strings.HasPrefix(b, "sub/"):
		return strings.TrimPrefix(b, "sub/")
	case strings.HasPrefix(a, "sub/"):
		return "../" + b
	}
	return b
}

func TestC12Walk(t *testing.T) {
	defer recC12.Flush()
	limit := 300
	if tier() == "thorough" {
		limit = 12000
	}
	n := 0
	rapid.Check(t, func(t *rapid.T) {
		if n >= limit && recC12.Evals() > 0 {
			return
		}
		n++
		const files = 4
		drawIncs := func(f int) []int {
			var others []int
			for k := 0; k < files; k++ {
				if k != f && k != 0 {
					others = append(others, k)
				}
			}
			perm := rapid.Permutation(others).Draw(t, "order")
			return perm[:rapid.IntRange(0, len(perm)).Draw(t, "nincs")]
		}
		c := &C12Case{Depth: rapid.IntRange(2, 3).Draw(t, "depth")}
		short := len(m.Render(c12WalkJournal(0, []int{1, 2, 3}, false, 0)).Text)
		c.MaxSize = short + 60
		ver := 0
		for f := 0; f < files; f++ {
			c.Init = append(c.Init, c12WalkJournal(f, drawIncs(f), rapid.IntRange(0, 3).Draw(t, "long") == 0, ver))
		}
		if rapid.Bool().Draw(t, "rootbygraph") {
			c.RootName = "00-all.journal"
		}
		steps := rapid.IntRange(4, 12).Draw(t, "steps")
		for s := 0; s < steps; s++ {
			f := rapid.IntRange(0, files-1).Draw(t, "file")
			ver++
			c.Ops = append(c.Ops, C12Op{File: f, Journal: c12WalkJournal(f, drawIncs(f), rapid.IntRange(0, 2).Draw(t, "long") == 0, ver)})
		}
		ds, cls := c12Check(c)
		recC12.Case(true, mustJSON(c), append(cls, "walk")...)
		report(t, recC12, "c12", c, ds)
	})
}
