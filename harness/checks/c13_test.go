package checks

// C13 — published diagnostics converge to the latest content under any timing.
// Oracle: the diagnostics a fresh server publishes for the final text.
// Schedules: every order in which the per-change background computations run
// (mode start: held at the diag.start hook until all notifications are in),
// every order in which computed results are published while later notifications
// arrive in between (mode computed: each analysis runs up to the diag.publish
// hook before the next notification is sent, then they are released in the
// chosen order), and every order in which PublishDiagnostics calls reach the
// client (mode publish: parked in the client stub).

import (
	"encoding/json"
	"fmt"
	"os"
	"path/filepath"
	"sort"
	"strings"
	"sync"
	"testing"
	"time"

	"go.lsp.dev/protocol"
	"pgregory.net/rapid"

	"github.com/juev/hledger-lsp/internal/verifhook"
	"github.com/juev/hledger-lsp/verifharness/ev"
	"github.com/juev/hledger-lsp/verifharness/lspx"
	"github.com/juev/hledger-lsp/verifharness/refclient"
)

type C13Step struct {
	Doc    int  `json:"doc"`
	Ranged bool `json:"ranged"`
	Val    int  `json:"val"`              // marker value making the version's diagnostics unique
	Kind   int  `json:"kind"`             // shape of the text of this version
	Rev    int  `json:"rev,omitempty"`    // >0: a trailing comment making the text unique while Kind/Val (hence the diagnostics) repeat an earlier version
	Reopen bool `json:"reopen,omitempty"` // the version arrives as didClose followed by didOpen with this text, not as a change
}

type C13Case struct {
	Steps []C13Step `json:"steps"`         // step 0 of each doc is its didOpen
	Perm  []int     `json:"perm"`          // order in which computations may start / publish
	Mode  string    `json:"mode"`          // start | publish
	Pre   bool      `json:"pre,omitempty"` // the documents are open, clean and settled before the burst (every step is a change)
	// mode "free": any interleaving of the notifications with the two stages of every analysis. Events in order:
	// -1 = the next notification is sent; k >= 0 = the analysis of step k moves on (first from its start to the
	// point of publishing, then through publishing to its end); -2 / -3 = features.diagnostics is switched
	// off / on again (generated only around analyses of versions that are no longer the latest: the latest
	// version of every document is analysed while the feature is on)
	Sched []int `json:"sched,omitempty"`
	Root  bool  `json:"root,omitempty"` // the server has the documents' folder as workspace; every step is on main.journal
	// SwitchAt > 0 (mode publish, one document): the server starts with features.diagnostics off; the
	// setting is switched on (settings pushed with didChangeConfiguration) before step SwitchAt is sent.
	// The versions before it are answered with an empty list, which must not be the final word either.
	SwitchAt int `json:"switch_at,omitempty"`
}

var c13URIs []string
var c13Dir string

// freeGate holds every analysis twice — at its first statement and at the point of publishing —
// and knows analyses by the order in which they arrive (the driver sends the next notification
// only when the analysis of the previous one has arrived).
type freeGate struct {
	mu       sync.Mutex
	active   bool
	arrivals int
	byGo     map[uint64]int
	stage    map[int]int // 1 parked at start, 2 running, 3 parked at publish, 4 publishing, 5 done
	ch       map[int]chan struct{}
}

var fgate = &freeGate{}

func (g *freeGate) reset(active bool) {
	g.mu.Lock()
	g.active, g.arrivals, g.byGo, g.stage, g.ch = active, 0, map[uint64]int{}, map[int]int{}, map[int]chan struct{}{}
	g.mu.Unlock()
}

func (g *freeGate) handler(name string, args ...string) {
	g.mu.Lock()
	if !g.active {
		g.mu.Unlock()
		return
	}
	id := goid()
	switch name {
	case "diag.start":
		k := g.arrivals
		g.arrivals++
		g.byGo[id] = k
		g.stage[k] = 1
		ch := make(chan struct{})
		g.ch[k] = ch
		g.mu.Unlock()
		<-ch
		return
	case "diag.publish":
		if k, ok := g.byGo[id]; ok {
			g.stage[k] = 3
			ch := make(chan struct{})
			g.ch[k] = ch
			g.mu.Unlock()
			<-ch
			return
		}
	case "diag.done":
		if k, ok := g.byGo[id]; ok {
			g.stage[k] = 5
			delete(g.byGo, id)
		}
	}
	g.mu.Unlock()
}

func (g *freeGate) stageOf(k int) int { g.mu.Lock(); defer g.mu.Unlock(); return g.stage[k] }
func (g *freeGate) nArrived() int     { g.mu.Lock(); defer g.mu.Unlock(); return g.arrivals }

// advance lets analysis k run to its next stopping point.
func (g *freeGate) advance(k int) {
	g.mu.Lock()
	st, ch := g.stage[k], g.ch[k]
	if st != 1 && st != 3 {
		g.mu.Unlock()
		return
	}
	g.stage[k] = st + 1
	g.mu.Unlock()
	close(ch)
	waitUntil(func() bool { s := g.stageOf(k); return s == 3 || s == 5 }, 5*time.Second)
}

// c13Setup puts the two documents beside a real file they may include.
func c13Setup() {
	if c13URIs != nil {
		return
	}
	dir := filepath.Join(scratch(), "c13")
	_ = os.MkdirAll(dir, 0o755)
	_ = os.WriteFile(filepath.Join(dir, "inc.journal"), []byte("account a:b\n\n2023-12-31 included\n    a:b  1 EUR\n    c:d\n"), 0o644)
	_ = os.WriteFile(filepath.Join(dir, "main.journal"), []byte(c13Text(2, 0)), 0o644)
	c13Dir = dir
	c13URIs = []string{"file://" + filepath.Join(dir, "main.journal"), "file://" + filepath.Join(dir, "b.journal")}
}

func c13Text(kind, val int) string {
	switch kind % 7 {
	case 6: // as the default kind, with the account declared: no warning
		return fmt.Sprintf("account a:b\naccount x%d:y\n2024-01-01 undeclared\n    x%d:y  1 EUR\n    a:b\n", val, val)
	case 4:
		return "" // everything deleted
	case 5:
		return fmt.Sprintf("include inc.journal\n\n2024-01-01 version\n    a:b  %d EUR\n    c:d  0 EUR\n", val)
	case 0:
		return fmt.Sprintf("2024-01-01 version\n    a:b  %d EUR\n    c:d  0 EUR\n", val)
	case 1:
		return fmt.Sprintf("2024-01-01 version\n    a:b  1 EUR\n    c:d  -1 EUR\n\n2024-01-02 second\n    a:b  %d USD\n    c:d  -1 USD\n", val+1)
	case 2:
		return fmt.Sprintf("2024-01-01 balanced\n    a:b  %d EUR\n    c:d\n", val) // no diagnostics at all
	default:
		return fmt.Sprintf("account a:b\n2024-01-01 undeclared\n    x%d:y  1 EUR\n    a:b\n", val)
	}
}

type startGate struct {
	mu      sync.Mutex
	point   string // hook at which analyses are held: diag.start, or diag.publish (result computed, not yet published)
	active  bool
	waiting []*startWaiter
	done    int
}

type startWaiter struct {
	uri, content string
	ch           chan struct{}
}

var sgate = &startGate{}

func (g *startGate) handler(name string, args ...string) {
	if name == "diag.publish" {
		name = "diag.hold-computed"
	}
	g.mu.Lock()
	if g.active && ((name == "diag.start" && g.point != "diag.publish") || (name == "diag.hold-computed" && g.point == "diag.publish")) {
		name = "hold"
	}
	g.mu.Unlock()
	switch name {
	case "hold":
		g.mu.Lock()
		if !g.active {
			g.mu.Unlock()
			return
		}
		w := &startWaiter{uri: args[0], content: args[1], ch: make(chan struct{})}
		g.waiting = append(g.waiting, w)
		g.mu.Unlock()
		<-w.ch
	case "diag.done":
		g.mu.Lock()
		g.done++
		g.mu.Unlock()
	}
}

func (g *startGate) nWaiting() int { g.mu.Lock(); defer g.mu.Unlock(); return len(g.waiting) }
func (g *startGate) nDone() int    { g.mu.Lock(); defer g.mu.Unlock(); return g.done }

func (g *startGate) releaseMatching(uri, content string) bool {
	g.mu.Lock()
	for i, w := range g.waiting {
		if w.uri == uri && w.content == content {
			g.waiting = append(g.waiting[:i:i], g.waiting[i+1:]...)
			g.mu.Unlock()
			close(w.ch)
			return true
		}
	}
	g.mu.Unlock()
	return false
}

func (g *startGate) releaseAll() {
	g.mu.Lock()
	g.active = false
	ws := g.waiting
	g.waiting = nil
	g.mu.Unlock()
	for _, w := range ws {
		close(w.ch)
	}
}

func diagKey(ds []protocol.Diagnostic) string {
	var parts []string
	for _, d := range ds {
		parts = append(parts, fmt.Sprintf("%v|%s|%d:%d-%d:%d|%v", d.Code, d.Message, d.Range.Start.Line, d.Range.Start.Character, d.Range.End.Line, d.Range.End.Character, d.Severity))
	}
	sort.Strings(parts)
	return strings.Join(parts, "\n")
}

// waitUntil polls cond; the bound only decides how the schedule proceeds, never a verdict.
func waitUntil(cond func() bool, d time.Duration, short ...any) bool {
	start := time.Now()
	deadline := start.Add(d)
	for i := 0; ; i++ {
		if cond() {
			return true
		}
		if i%16 == 15 {
			now := time.Now()
			if now.After(deadline) {
				return false
			}
			// optional shorter bound while a secondary condition holds
			if len(short) == 2 && short[1].(func() bool)() && now.After(start.Add(short[0].(time.Duration))) {
				return false
			}
		}
		if i < 100 {
			time.Sleep(20 * time.Microsecond)
		} else {
			time.Sleep(200 * time.Microsecond)
		}
	}
}

func c13Check(c *C13Case) (ds []ev.Discrepancy, nontrivial bool) {
	c13Setup()
	if c.Mode == "free" {
		fgate.reset(false)
		verifhook.SetHandler(fgate.handler)
	} else {
		verifhook.SetHandler(sgate.handler)
	}
	defer verifhook.SetHandler(nil)
	srvOpts := lspx.Options{}
	if c.Root {
		srvOpts.RootDir = c13Dir
	}
	offOpts := srvOpts
	if c.SwitchAt > 0 {
		offOpts.InitOptions = map[string]any{"features": map[string]any{"diagnostics": false}}
	}
	h, err := lspx.New(offOpts)
	if err != nil {
		return []ev.Discrepancy{ev.D("c13.harness", "%v", err)}, false
	}
	// texts per step and expected diagnostics per step (fresh server each)
	texts := make([]string, len(c.Steps))
	wantKey := make([]string, len(c.Steps))
	final := map[int]int{}
	for i, st := range c.Steps {
		texts[i] = c13Text(st.Kind, st.Val)
		if st.Rev > 0 && texts[i] != "" {
			texts[i] += fmt.Sprintf("; rev %d\n", st.Rev)
		}
		final[st.Doc] = i
	}
	for i, st := range c.Steps {
		f, err := lspx.New(srvOpts)
		if err != nil {
			return []ev.Discrepancy{ev.D("c13.harness", "%v", err)}, false
		}
		d, err := f.OpenAndWait(c13URIs[st.Doc], texts[i])
		if err != nil {
			return []ev.Discrepancy{ev.D("c13.harness", "%v", err)}, false
		}
		wantKey[i] = diagKey(d)
		if c.SwitchAt > 0 && i < c.SwitchAt {
			wantKey[i] = diagKey(nil) // answered while the feature was off
		}
	}
	sgate.mu.Lock()
	sgate.active = false
	sgate.waiting = nil
	sgate.done = 0
	sgate.mu.Unlock()
	opened := map[int]bool{}
	cur := map[int]string{}
	if c.Pre {
		for _, st := range c.Steps {
			if !opened[st.Doc] {
				opened[st.Doc] = true
				cur[st.Doc] = c13Text(2, 0)
				if _, err := h.OpenAndWait(c13URIs[st.Doc], cur[st.Doc]); err != nil {
					return []ev.Discrepancy{ev.D("c13.harness", "%v", err)}, false
				}
			}
		}
	}
	sgate.mu.Lock()
	sgate.active = c.Mode == "start" || c.Mode == "computed"
	sgate.point = "diag.start"
	if c.Mode == "computed" {
		sgate.point = "diag.publish"
	}
	sgate.done = 0
	sgate.mu.Unlock()
	if c.Mode == "publish" {
		h.C.SetPark(true)
	}
	send := func(i int) {
		st := c.Steps[i]
		uri := c13URIs[st.Doc]
		if !opened[st.Doc] {
			_ = h.Open(uri, texts[i])
			opened[st.Doc] = true
		} else if st.Reopen {
			_ = h.Close(uri)
			_ = h.Open(uri, texts[i])
		} else {
			_ = h.Change(uri, i+2, []refclient.Change{{Text: texts[i]}})
		}
		cur[st.Doc] = texts[i]
	}
	if c.Mode == "free" {
		fgate.reset(true)
		sent := 0
		var order []int
		for _, e := range c.Sched {
			if e == -2 || e == -3 {
				// the diagnostics feature is switched off (-2) or on again (-3); the settings are pushed
				// with the notification and in force when it returns
				_ = h.PushConfiguration(map[string]any{"features": map[string]any{"diagnostics": e == -3}})
				continue
			}
			if e < 0 {
				if sent < len(c.Steps) {
					send(sent)
					sent++
					waitUntil(func() bool { return fgate.nArrived() >= sent }, 5*time.Second)
				}
				continue
			}
			if e < sent {
				if fgate.stageOf(e) == 3 {
					order = append(order, e) // publishes now
				}
				fgate.advance(e)
			}
		}
		for ; sent < len(c.Steps); sent++ {
			send(sent)
			waitUntil(func() bool { return fgate.nArrived() > sent }, 5*time.Second)
		}
		for k := range c.Steps {
			if fgate.stageOf(k) == 1 {
				fgate.advance(k)
			}
			if fgate.stageOf(k) == 3 {
				order = append(order, k)
				fgate.advance(k)
			}
		}
		fgate.reset(false)
		if err := h.Quiesce(); err != nil {
			return []ev.Discrepancy{ev.D("c13.harness", "%v", err)}, false
		}
		for d, fk := range final {
			last := -1
			for _, k := range order {
				if c.Steps[k].Doc == d {
					last = k
				}
			}
			if last >= 0 && last != fk {
				nontrivial = true
			}
			got, ok := h.C.LastDiagnostics(c13URIs[d])
			if !ok {
				if wantKey[fk] != "" {
					ds = append(ds, ev.D("c13.final.none", "document %d: nothing was published (mode free, schedule %v), final text %q has diagnostics %q", d, c.Sched, texts[fk], wantKey[fk]))
				}
				continue
			}
			if diagKey(got) != wantKey[fk] {
				ds = append(ds, ev.D("c13.final.stale", "document %d: after the burst (mode free, schedule %v, publishing order %v) the last published diagnostics are %q; the final text %q has %q",
					d, c.Sched, order, diagKey(got), texts[fk], wantKey[fk]))
			}
		}
		return ds, nontrivial
	}
	// the burst, issued without waiting
	for i, st := range c.Steps {
		uri := c13URIs[st.Doc]
		if c.SwitchAt > 0 && i == c.SwitchAt {
			// the analyses under way have looked at the setting (they stand at their publication, or
			// wait for the one that does); now it changes
			waitUntil(func() bool { return len(h.C.Parked()) > 0 }, 300*time.Millisecond)
			time.Sleep(2 * time.Millisecond)
			_ = h.PushConfiguration(map[string]any{"features": map[string]any{"diagnostics": true}})
		}
		if !opened[st.Doc] {
			_ = h.Open(uri, texts[i])
			opened[st.Doc] = true
		} else if st.Reopen {
			// a notification returns whatever the client is doing with a publication it was handed
			closed := make(chan struct{})
			go func() { _ = h.Close(uri); close(closed) }()
			select {
			case <-closed:
			case <-time.After(10 * time.Second):
				nparked := len(h.C.Parked())
				h.C.SetPark(false)
				for k := nparked - 1; k >= 0; k-- {
					h.C.Release(k)
				}
				<-closed
				_ = h.Quiesce()
				return []ev.Discrepancy{ev.D("c13.notification.blocked", "step %d: didClose of document %d did not return within 10 s while %d publications were still in the client's hands (it returned once they were taken)", i, st.Doc, nparked)}, true
			}
			_ = h.Open(uri, texts[i])
		} else if st.Ranged {
			// a ranged edit that replaces the whole content
			b := refclient.New(cur[st.Doc])
			_ = h.Change(uri, i+2, []refclient.Change{{Range: &refclient.Range{Start: refclient.Pos{Line: 0, Char: 0}, End: refclient.Pos{Line: b.LineCount() + 1, Char: 0}}, Text: texts[i]}})
		} else {
			_ = h.Change(uri, i+2, []refclient.Change{{Text: texts[i]}})
		}
		cur[st.Doc] = texts[i]
		if c.Mode == "computed" {
			// the next notification arrives when this one's result is ready to be published
			waitUntil(func() bool { return sgate.nWaiting() >= i+1 }, 5*time.Second)
		}
	}
	n := len(c.Steps)
	var realised []int
	if c.Mode == "start" || c.Mode == "computed" {
		waitUntil(func() bool { return sgate.nWaiting() >= n }, 5*time.Second)
		for _, k := range c.Perm {
			st := c.Steps[k]
			before := sgate.nDone()
			if sgate.releaseMatching(c13URIs[st.Doc], texts[k]) {
				realised = append(realised, k)
				waitUntil(func() bool { return sgate.nDone() > before }, 5*time.Second)
			}
		}
		sgate.releaseAll()
	} else {
		released := map[int]bool{}
		match := func(p *protocol.PublishDiagnosticsParams, k int) bool {
			return string(p.URI) == c13URIs[c.Steps[k].Doc] && diagKey(p.Diagnostics) == wantKey[k]
		}
		for _, k := range c.Perm {
			// wait for the wanted call; fall back to whatever is parked when the
			// server is otherwise idle or serialises its publications
			find := func() int {
				for i, p := range h.C.Parked() {
					if match(p, k) {
						return i
					}
				}
				return -1
			}
			idx := -1
			waitUntil(func() bool {
				idx = find()
				if idx >= 0 {
					return true
				}
				return !h.Busy() // nothing more will arrive
			}, 300*time.Millisecond, 15*time.Millisecond, func() bool { return len(h.C.Parked()) > 0 })
			if idx < 0 {
				idx = find()
			}
			if idx >= 0 {
				h.C.Release(idx)
				released[k] = true
				realised = append(realised, k)
				continue
			}
			if ps := h.C.Parked(); len(ps) > 0 {
				which := -1
				for j := range c.Steps {
					if !released[j] && match(ps[0], j) {
						which = j
						break
					}
				}
				h.C.Release(0)
				if which >= 0 {
					released[which] = true
				}
				realised = append(realised, which)
			}
		}
		h.C.SetPark(false)
		for {
			waitUntil(func() bool { return len(h.C.Parked()) > 0 || !h.Busy() }, 2*time.Second)
			if len(h.C.Parked()) == 0 {
				break
			}
			h.C.Release(0)
		}
	}
	if err := h.Quiesce(); err != nil {
		return []ev.Discrepancy{ev.D("c13.harness", "%v", err)}, false
	}
	// non-trivial: the computation of some document's final content was not the last of that document to run / publish
	for d, fk := range final {
		last := -1
		for _, k := range realised {
			if k >= 0 && c.Steps[k].Doc == d {
				last = k
			}
		}
		if last >= 0 && last != fk {
			nontrivial = true
		}
	}
	for d, fk := range final {
		got, ok := h.C.LastDiagnostics(c13URIs[d])
		if !ok {
			if wantKey[fk] != "" {
				ds = append(ds, ev.D("c13.final.none", "document %d: nothing was published, final text %q has diagnostics %q", d, texts[fk], wantKey[fk]))
			}
			continue
		}
		if diagKey(got) != wantKey[fk] {
			ds = append(ds, ev.D("c13.final.stale", "document %d: after the burst (mode %s, realised order %v) the last published diagnostics are %q; the final text %q has %q",
				d, c.Mode, realised, diagKey(got), texts[fk], wantKey[fk]))
		}
	}
	return ds, nontrivial
}

func permutations(n int) [][]int {
	var out [][]int
	var rec func(cur []int, used []bool)
	rec = func(cur []int, used []bool) {
		if len(cur) == n {
			out = append(out, append([]int(nil), cur...))
			return
		}
		for i := 0; i < n; i++ {
			if !used[i] {
				used[i] = true
				rec(append(cur, i), used)
				used[i] = false
			}
		}
	}
	rec(nil, make([]bool, n))
	return out
}

var recC13 = ev.New("C13")

func c13Run(c *C13Case) []ev.Discrepancy {
	ds, nt := c13Check(c)
	rep := false
	for _, st := range c.Steps {
		rep = rep || st.Rev > 0
	}
	recC13.Case(nt, mustJSON(c), "mode:"+c.Mode, fmt.Sprintf("burst:%d", len(c.Steps)), fmt.Sprintf("settled-before:%v", c.Pre), fmt.Sprintf("repeated-diagnostics:%v", rep), fmt.Sprintf("feature-switched-on-inside-burst:%v", c.SwitchAt > 0), fmt.Sprintf("feature-off-while-overtaken-analyses-run:%v", func() bool {
		for _, e := range c.Sched {
			if e == -2 {
				return true
			}
		}
		return false
	}()), fmt.Sprintf("close-and-reopen-inside-burst:%v", func() bool {
		for _, st := range c.Steps {
			if st.Reopen {
				return true
			}
		}
		return false
	}()))
	if nt && recC13.WantSample() {
		recC13.Sample(c)
	}
	return ds
}

func genC13Steps(t *rapid.T, n int) []C13Step {
	two := rapid.IntRange(0, 2).Draw(t, "twodocs") == 0
	var steps []C13Step
	for i := 0; i < n; i++ {
		d := 0
		if two && i > 0 {
			d = rapid.IntRange(0, 1).Draw(t, "doc")
		}
		st := C13Step{Doc: d, Ranged: rapid.Bool().Draw(t, "ranged"), Val: i + 1 + rapid.IntRange(0, 3).Draw(t, "val")*10, Kind: rapid.SampledFrom([]int{0, 1, 2, 3, 0, 1, 2, 3, 4, 5, 5}).Draw(t, "kind")}
		if rapid.IntRange(0, 2).Draw(t, "repeat") == 0 {
			// another text with the diagnostics of the previous version of the same document
			for j := i - 1; j >= 0; j-- {
				if steps[j].Doc == d {
					st.Kind, st.Val, st.Rev = steps[j].Kind, steps[j].Val, i
					break
				}
			}
		}
		if i > 0 && !disabled("c13.reopen") && rapid.IntRange(0, 5).Draw(t, "reopen") == 0 {
			st.Reopen = true
		}
		steps = append(steps, st)
	}
	return steps
}

// TestC13Enum: for generated burst shapes of length 2..4, every permutation, both modes.
func TestC13Enum(t *testing.T) {
	defer recC13.Flush()
	shapes := 6
	if tier() == "thorough" {
		shapes = 120
	}
	total := 0
	rapid.Check(t, func(t *rapid.T) {
		if int(recC13.Evals()) > 0 && total >= shapes {
			return
		}
		total++
		n := rapid.IntRange(2, 4).Draw(t, "n")
		steps := genC13Steps(t, n)
		pre := rapid.Bool().Draw(t, "pre")
		for _, perm := range permutations(n) {
			for _, mode := range []string{"start", "publish", "computed"} {
				c := &C13Case{Steps: steps, Perm: perm, Mode: mode, Pre: pre}
				report(t, recC13, "c13", c, c13Run(c))
			}
		}
	})
	recC13.Set("exhaustive_subspace", "all orders (2!+3!+4! per shape) in which the computations of a burst of <=4 changes start, and all orders in which their publications are released, for each generated burst shape")
}

func TestC13Rand(t *testing.T) {
	defer recC13.Flush()
	rapid.Check(t, func(t *rapid.T) {
		n := rapid.IntRange(2, 5).Draw(t, "n")
		steps := genC13Steps(t, n)
		perm := rapid.Permutation(seq(n)).Draw(t, "perm")
		c := &C13Case{Steps: steps, Perm: perm, Mode: rapid.SampledFrom([]string{"start", "publish", "computed"}).Draw(t, "mode"), Pre: rapid.Bool().Draw(t, "pre")}
		if rapid.IntRange(0, 3).Draw(t, "switch") == 0 {
			// one document, publications parked, the diagnostics feature switched on inside the burst
			for i := range c.Steps {
				c.Steps[i].Doc = 0
			}
			c.Mode, c.Pre = "publish", false
			c.SwitchAt = rapid.IntRange(1, n-1).Draw(t, "switchat")
		}
		report(t, recC13, "c13", c, c13Run(c))
	})
}

// TestC13Free: any interleaving of the notifications with the start and the publication of every
// analysis; versions may repeat an earlier text exactly (A, B, A), and with a workspace folder what an
// analysis of main.journal finds depends on the workspace's copy of it at the time it runs.
func TestC13Free(t *testing.T) {
	defer recC13.Flush()
	rapid.Check(t, func(t *rapid.T) {
		n := rapid.IntRange(2, 5).Draw(t, "n")
		c := &C13Case{Mode: "free", Root: rapid.IntRange(0, 2).Draw(t, "root") != 0, Pre: rapid.Bool().Draw(t, "pre")}
		for i := 0; i < n; i++ {
			d := 0
			if !c.Root && rapid.IntRange(0, 3).Draw(t, "doc") == 0 {
				d = 1
			}
			c.Steps = append(c.Steps, C13Step{Doc: d, Kind: rapid.SampledFrom([]int{3, 6, 3, 6, 0, 2, 4, 5}).Draw(t, "kind"), Val: rapid.SampledFrom([]int{1, 1, 2}).Draw(t, "val")})
		}
		if rapid.IntRange(0, 2).Draw(t, "returns") == 0 {
			// a text that comes back (A, B, A), where B changes what the workspace knows about A's accounts
			v := rapid.SampledFrom([]int{1, 2}).Draw(t, "rv")
			ka, kb := 3, 6
			if rapid.Bool().Draw(t, "swap") {
				ka, kb = 6, 3
			}
			c.Root, n = true, 3
			c.Steps = []C13Step{{Kind: ka, Val: v}, {Kind: kb, Val: v}, {Kind: ka, Val: v}}
		}
		// a random linear extension of: notifications in order; notification k < start of analysis k < its publication
		sent, stage := 0, make([]int, n)
		for {
			var enabled []int
			if sent < n {
				enabled = append(enabled, -1)
			}
			for k := 0; k < sent; k++ {
				if stage[k] < 2 {
					enabled = append(enabled, k)
				}
			}
			if len(enabled) == 0 {
				break
			}
			e := rapid.SampledFrom(enabled).Draw(t, "event")
			c.Sched = append(c.Sched, e)
			if e < 0 {
				sent++
			} else {
				stage[e]++
			}
		}
		if rapid.IntRange(0, 2).Draw(t, "offwindow") == 0 {
			// everything is sent and waits at its start; the latest version of every document is analysed
			// and published; the feature is switched off, some of the overtaken analyses run (they read
			// "off"), the feature is switched on again. The empty list of an overtaken analysis must not
			// be the last word.
			last := map[int]int{}
			for i, st := range c.Steps {
				last[st.Doc] = i
			}
			var stale []int
			c.Sched = nil
			for i := 0; i < n; i++ {
				c.Sched = append(c.Sched, -1)
			}
			for i, st := range c.Steps {
				if last[st.Doc] == i {
					c.Sched = append(c.Sched, i, i)
				} else {
					stale = append(stale, i)
				}
			}
			if len(stale) > 0 {
				c.Sched = append(c.Sched, -2)
				for _, k := range rapid.Permutation(stale).Draw(t, "staleorder")[:rapid.IntRange(1, len(stale)).Draw(t, "nstale")] {
					c.Sched = append(c.Sched, k, k)
				}
				c.Sched = append(c.Sched, -3)
			}
		}
		ds, nt := c13Check(c)
		same := false
		for i := range c.Steps {
			for j := 0; j < i; j++ {
				if c.Steps[i].Doc == c.Steps[j].Doc && c.Steps[i].Kind == c.Steps[j].Kind && c.Steps[i].Val == c.Steps[j].Val {
					same = true
				}
			}
		}
		recC13.Case(nt, mustJSON(c), "mode:free", fmt.Sprintf("burst:%d", n), fmt.Sprintf("workspace-root:%v", c.Root), fmt.Sprintf("a-text-returns:%v", same))
		report(t, recC13, "c13", c, ds)
	})
}

func seq(n int) []int {
	s := make([]int, n)
	for i := range s {
		s[i] = i
	}
	return s
}

func init() {
	replayers["c13"] = func(raw json.RawMessage) ([]ev.Discrepancy, error) {
		var c C13Case
		if err := json.Unmarshal(raw, &c); err != nil {
			return nil, err
		}
		ds, _ := c13Check(&c)
		return ds, nil
	}
}
