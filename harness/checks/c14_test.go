package checks

// C14 — background work never races with, blocks or corrupts later requests.
// Built with -race. Oracles: (1) no data race report whose innermost frames are
// in the repository; (2) no panic and no operation that fails to return; (3)
// every response equals the response of a sequential replay of the same
// history on a fresh server that is run to quiescence after every step.

import (
	"encoding/json"
	"fmt"
	"os"
	"path/filepath"
	"regexp"
	"runtime"
	"strconv"
	"strings"
	"sync"
	"testing"
	"time"

	"pgregory.net/rapid"

	"github.com/juev/hledger-lsp/internal/verifhook"
	"github.com/juev/hledger-lsp/verifharness/ev"
	"github.com/juev/hledger-lsp/verifharness/gen"
	"github.com/juev/hledger-lsp/verifharness/lspx"
	m "github.com/juev/hledger-lsp/verifharness/model"
	"github.com/juev/hledger-lsp/verifharness/refclient"
)

type C14Op struct {
	Op     string         `json:"op"` // open | change | save | close | config | request
	Doc    int            `json:"doc"`
	Alt    int            `json:"alt,omitempty"`  // which alternative text of the file
	Kind   string         `json:"kind,omitempty"` // request kind
	Pos    refclient.Pos  `json:"pos,omitempty"`
	Config map[string]any `json:"config,omitempty"`
	Wait   int            `json:"wait"`              // after the op: 0 proceed at once, 1 yield, 2 wait for quiescence
	Hold   bool           `json:"hold,omitempty"`    // open/change: the analysis this notification starts is held until a release op ...
	HoldAt int            `json:"hold_at,omitempty"` // ... 0: at its first statement; 1: before it reads its first included file; 2: after it has read its first included file
	LIFO   bool           `json:"lifo,omitempty"`    // release: last held first
	// release: all held analyses are let go at the same moment and run side by side (otherwise one
	// after the other, each to completion)
	Together bool `json:"together,omitempty"`
	// config: the refresh waits with the client's answer in hand until the next request stands between
	// computing and remembering its document's posting templates; that request then waits for the refresh
	Rendezvous bool `json:"rendezvous,omitempty"`
	// config: the refresh waits inside setSettings (old trees outdated, workspace not yet rebuilt) until
	// the next request stands between computing and remembering its templates; the request (WaitBumped)
	// is not sent before the refresh stands there
	RendezvousBumped bool `json:"rendezvous_bumped,omitempty"`
	WaitBumped       bool `json:"wait_bumped,omitempty"`
	// config: the client's answer to this refresh travels until one more refresh (a later one) is done,
	// so the server gets the answers in the opposite order of its questions
	AnswerLate bool `json:"answer_late,omitempty"`
	// config: Replace — this configuration replaces the client's (what it does not name, the user has
	// removed; the server keeps what it had for those settings). PinFirst — the history goes on only
	// when the client's answer to this refresh is in hand; it travels until the answer to the NEXT
	// refresh is in hand too, and that one travels until this refresh is done: both questions are asked
	// before either answer is applied, and the answers are applied in the order of the questions. A
	// Replace without PinFirst takes effect only when the PinFirst before it succeeded (otherwise the
	// configuration is laid over the previous one as usual): the answer to the earlier question is
	// then certain to be the earlier configuration.
	Replace  bool `json:"replace,omitempty"`
	PinFirst bool `json:"pin_first,omitempty"`
	AtEnd            bool `json:"at_end,omitempty"` // request: on the last line of the document's current text (the blank line after its last header)
}

type C14Case struct {
	WS     *gen.Workspace `json:"ws"`
	Alts   [][]*m.Journal `json:"alts"` // per file: alternative buffer contents
	Root   bool           `json:"root"`
	Ops    []C14Op        `json:"ops"`
	Delays []int          `json:"delays"`         // microseconds to hold background goroutines at successive hook points
	Pats   []string       `json:"pats,omitempty"` // directed patterns appended to the random history (labels only)
}

// ---- hook handler: counts configuration refreshes, delays background goroutines ----

type c14Hooks struct {
	mu       sync.Mutex
	delays   []int
	next     int
	cfgStart int
	cfgDone  int
	inflight int
	enabled  bool
	holdWant map[string]int  // uri+content of analyses to hold when they start
	holdAt   map[string]int  // uri+content -> hold point (see C14Op.HoldAt)
	armed    map[uint64]int  // analysis goroutines that will be held at a point inside include loading
	held     []chan struct{} // analyses waiting at a hook point
	meet     chan struct{}   // non-nil: a refresh waits at config.answer for a request to reach templates.computed
	meet2    chan struct{}   // non-nil: a refresh waits at config.bumped for a request to reach templates.computed
	atBumped bool            // a refresh stands at config.bumped
	lateFor  int             // >0: the next answer travels until cfgDone reaches this count
	ov       int             // PinFirst: 1 armed, 2 the first answer is in hand and held, 0 otherwise
	ovFirst  chan struct{}   // closed to let the first answer go on
	ovBase   int             // cfgDone when armed
}

// goid returns the id of the calling goroutine (from the header of its stack trace).
func goid() uint64 {
	var buf [64]byte
	n := runtime.Stack(buf[:], false)
	f := strings.Fields(string(buf[:n]))
	if len(f) < 2 {
		return 0
	}
	id, _ := strconv.ParseUint(f[1], 10, 64)
	return id
}

func (h *c14Hooks) wantHold(uri, content string, at int) {
	h.mu.Lock()
	h.holdWant[uri+"\x00"+content]++
	h.holdAt[uri+"\x00"+content] = at
	h.mu.Unlock()
}

// nHeld returns the number of analyses waiting at the hook and of those that a
// notification already handled has started but that have not arrived there yet.
func (h *c14Hooks) nHeld() (held, pending int) {
	h.mu.Lock()
	defer h.mu.Unlock()
	for _, v := range h.holdWant {
		pending += v
	}
	return len(h.held), pending
}

// stopHolding releases everything and holds nothing further.
func (h *c14Hooks) stopHolding() {
	h.mu.Lock()
	held := h.held
	h.held, h.holdWant, h.armed = nil, map[string]int{}, map[uint64]int{}
	h.mu.Unlock()
	for _, ch := range held {
		close(ch)
	}
}

// releaseAll lets every held analysis run at once.
func (h *c14Hooks) releaseAll() {
	h.mu.Lock()
	held := h.held
	h.held = nil
	h.mu.Unlock()
	for _, ch := range held {
		close(ch)
	}
}

// releaseOne lets one held analysis run; false when none is held.
func (h *c14Hooks) releaseOne(lifo bool) bool {
	h.mu.Lock()
	if len(h.held) == 0 {
		h.mu.Unlock()
		return false
	}
	i := 0
	if lifo {
		i = len(h.held) - 1
	}
	ch := h.held[i]
	h.held = append(h.held[:i:i], h.held[i+1:]...)
	h.mu.Unlock()
	close(ch)
	return true
}

var c14h = &c14Hooks{}

func (h *c14Hooks) handler(name string, args ...string) {
	h.mu.Lock()
	d := 0
	switch name {
	case "config.start":
		h.cfgStart++
	case "config.done":
		h.cfgDone++
	case "diag.start":
		h.inflight++
		if key := args[0] + "\x00" + args[1]; h.enabled && h.holdWant[key] > 0 {
			h.holdWant[key]--
			if at := h.holdAt[key]; at > 0 {
				// keeps running (counts as busy) until it parks inside include loading, or finishes
				h.armed[goid()] = at
				break
			}
			ch := make(chan struct{})
			h.held = append(h.held, ch)
			h.mu.Unlock()
			<-ch
			return
		}
	case "include.load", "include.loaded":
		if at := h.armed[goid()]; h.enabled && ((at == 1 && name == "include.load") || (at == 2 && name == "include.loaded")) {
			delete(h.armed, goid())
			ch := make(chan struct{})
			h.held = append(h.held, ch)
			h.mu.Unlock()
			<-ch
			return
		}
	case "diag.done":
		h.inflight--
		delete(h.armed, goid())
	case "config.answer":
		if h.enabled && h.ov == 1 {
			h.ov = 2
			ch := h.ovFirst
			h.mu.Unlock()
			select {
			case <-ch:
			case <-time.After(5 * time.Second):
			}
			return
		}
		if h.enabled && h.ov == 2 {
			h.ov = 0
			close(h.ovFirst)
			target := h.ovBase + 1
			h.mu.Unlock()
			for deadline := time.Now().Add(2 * time.Second); time.Now().Before(deadline); {
				h.mu.Lock()
				done := h.cfgDone >= target
				h.mu.Unlock()
				if done {
					break
				}
				time.Sleep(20 * time.Microsecond)
			}
			return
		}
		if target := h.lateFor; h.enabled && target > 0 {
			h.lateFor = 0
			h.mu.Unlock()
			for deadline := time.Now().Add(2 * time.Second); time.Now().Before(deadline); {
				h.mu.Lock()
				done := h.cfgDone >= target
				h.mu.Unlock()
				if done {
					break
				}
				time.Sleep(20 * time.Microsecond)
			}
			return
		}
		if ch := h.meet; h.enabled && ch != nil {
			h.mu.Unlock()
			select {
			case <-ch:
			case <-time.After(2 * time.Second): // no request came that far: the schedule is simply another one
			}
			return
		}
	case "config.bumped":
		if ch := h.meet2; h.enabled && ch != nil {
			h.atBumped = true
			h.mu.Unlock()
			select {
			case <-ch:
			case <-time.After(2 * time.Second):
			}
			h.mu.Lock()
			h.atBumped = false
			h.mu.Unlock()
			return
		}
	case "templates.computed":
		if ch := h.meet2; h.enabled && ch != nil {
			h.meet2 = nil
			h.mu.Unlock()
			close(ch)
			return
		}
		if ch := h.meet; h.enabled && ch != nil {
			h.meet = nil
			target := h.cfgStart
			h.mu.Unlock()
			close(ch)
			for deadline := time.Now().Add(2 * time.Second); time.Now().Before(deadline); {
				h.mu.Lock()
				done := h.cfgDone >= target
				h.mu.Unlock()
				if done {
					break
				}
				time.Sleep(20 * time.Microsecond)
			}
			return
		}
	}
	if h.enabled && (name == "diag.start" || name == "diag.publish" || name == "config.start" || name == "config.answer") && h.next < len(h.delays) {
		d = h.delays[h.next]
		h.next++
	}
	h.mu.Unlock()
	if d > 0 {
		time.Sleep(time.Duration(d) * time.Microsecond)
	}
}

func (h *c14Hooks) reset(delays []int, enabled bool) {
	h.mu.Lock()
	h.delays, h.next, h.cfgStart, h.cfgDone, h.inflight, h.enabled = delays, 0, 0, 0, 0, enabled
	h.holdWant, h.holdAt, h.armed, h.held, h.meet, h.meet2, h.atBumped, h.lateFor, h.ov = map[string]int{}, map[string]int{}, map[uint64]int{}, nil, nil, nil, false, 0, 0
	h.mu.Unlock()
}

func (h *c14Hooks) snapshot() (cfgDone, inflight int) {
	h.mu.Lock()
	defer h.mu.Unlock()
	return h.cfgDone, h.inflight
}

// ---- race log ----

func raceLogPath() string {
	for _, kv := range strings.Fields(os.Getenv("GORACE")) {
		if strings.HasPrefix(kv, "log_path=") {
			return fmt.Sprintf("%s.%d", kv[len("log_path="):], os.Getpid())
		}
	}
	return ""
}

func raceLogSize() int64 {
	p := raceLogPath()
	if p == "" {
		return 0
	}
	st, err := os.Stat(p)
	if err != nil {
		return 0
	}
	return st.Size()
}

var raceFrameRe = regexp.MustCompile(`(?m)^  (github\.com/juev/hledger-lsp/[^\s(]+(?:\([^)]*\))?[^\s(]*)\(`)

// raceKeys reduces every report to the innermost repository functions of its two stacks.
func raceKeys(text string) []string {
	var out []string
	for _, rep := range strings.Split(text, "WARNING: DATA RACE") {
		if strings.TrimSpace(rep) == "" {
			continue
		}
		// a report has blocks separated by blank lines; the first two are the conflicting accesses
		blocks := strings.Split(strings.TrimSpace(rep), "\n\n")
		var fns []string
		for _, b := range blocks {
			if len(fns) == 2 {
				break
			}
			if !strings.Contains(b, " by ") || !(strings.HasPrefix(strings.TrimSpace(b), "Read") || strings.HasPrefix(strings.TrimSpace(b), "Write") || strings.HasPrefix(strings.TrimSpace(b), "Previous")) {
				continue
			}
			fn := "<outside the repository>"
			if mm := raceFrameRe.FindStringSubmatch(b); mm != nil {
				fn = mm[1]
			}
			fns = append(fns, fn)
		}
		if len(fns) == 2 {
			out = append(out, fns[0]+" <-> "+fns[1])
		}
	}
	return out
}

// ---- running a history ----

type c14Run struct {
	responses []string // canonical response per request op ("" for other ops)
	compared  []bool   // whether the response may be compared with the sequential replay
	overlap   int      // requests issued while a background goroutine was in flight
	replaced  map[int]bool // config ops whose configuration replaced the client's (Replace took effect)
}

func c14Text(c *C14Case, env *wsEnv, doc, alt int) string {
	if alt <= 0 || doc >= len(c.Alts) || alt > len(c.Alts[doc]) {
		return env.Disk[doc].Text
	}
	return m.Render(c.Alts[doc][alt-1]).Text
}

func c14Execute(c *C14Case, sequential bool, conc *c14Run) (*c14Run, []ev.Discrepancy) {
	run := &c14Run{replaced: map[int]bool{}}
	pinnedOK := false
	var ds []ev.Discrepancy
	c14h.reset(c.Delays, !sequential)
	verifhook.SetHandler(c14h.handler)
	defer verifhook.SetHandler(nil)
	env, err := newWSEnv(c.WS, c.Root, lspx.Options{SupportsConfiguration: true})
	if err != nil {
		return run, []ev.Discrepancy{ev.D("c14.harness", "%v", err)}
	}
	defer env.Cleanup()
	h := env.H
	open := map[int]bool{}
	curText := map[int]string{}
	version := 1
	// quiescence apart from the analyses that are being held
	settle := func(extra int) error {
		deadline := time.Now().Add(60 * time.Second)
		for i := 0; ; i++ {
			if held, pending := c14h.nHeld(); pending == 0 && h.BusyBeyond(held+extra) <= 0 {
				return nil
			}
			if i < 200 {
				runtime.Gosched()
			} else {
				time.Sleep(50 * time.Microsecond)
			}
			if i%1000 == 999 && time.Now().After(deadline) {
				return lspx.ErrNotQuiescent
			}
		}
	}
	defer func() {
		c14h.stopHolding()
	}()
	cfgCalls := 1 // Initialized starts one refresh
	// Once two configuration refreshes have overlapped, which payload is applied last depends on
	// their interleaving (the stub hands out a different payload per event): responses that may
	// depend on settings are then no longer comparable with the sequential replay.
	cumCfg := map[string]any{}
	if !sequential {
		// the answer to a configuration request may be overtaken by that to a later one
		h.C.AnswerTravel = func() { c14h.handler("config.answer") }
	}
	for si, op := range c.Ops {
		uri := env.URIs[op.Doc%len(env.URIs)]
		doc := op.Doc % len(env.URIs)
		resp := ""
		compare := false
		done := make(chan struct{})
		var perr error
		busyBefore := h.Busy()
		go func() {
			defer close(done)
			perr = lspx.Guard(func() {
				switch op.Op {
				case "open":
					if !open[doc] {
						text := c14Text(c, env, doc, op.Alt)
						if op.Hold && !sequential {
							c14h.wantHold(uri, text, op.HoldAt)
						}
						_ = h.Open(uri, text)
						open[doc] = true
						curText[doc] = text
					}
				case "change":
					if open[doc] {
						version++
						text := c14Text(c, env, doc, op.Alt)
						if op.Hold && !sequential {
							c14h.wantHold(uri, text, op.HoldAt)
						}
						_ = h.Change(uri, version, []refclient.Change{{Text: text}})
						curText[doc] = text
					}
				case "save":
					if open[doc] {
						_ = h.Save(uri)
					}
				case "close":
					if open[doc] {
						_ = h.Close(uri)
						open[doc] = false
					}
				case "release":
					// the held analyses run to completion one after the other, in the chosen order
					// (this op runs in a goroutine of its own: one more than the baseline)
					if err := settle(1); err != nil { // every analysis to be held has arrived
						panic(err)
					}
					if op.Together && !sequential {
						c14h.releaseAll()
					}
					for c14h.releaseOne(op.LIFO) {
						if err := settle(1); err != nil {
							panic(err)
						}
					}
				case "config":
					// a client's configuration is a whole: this change is laid over what it had before
					replace := op.Replace && (op.PinFirst || pinnedOK)
					if sequential && conc != nil {
						replace = conc.replaced[si]
					}
					run.replaced[si] = replace
					cfg := map[string]any{}
					for k, v := range cumCfg {
						if !replace {
							cfg[k] = v
						}
					}
					for k, v := range op.Config {
						sec, isSec := v.(map[string]any)
						old, hadSec := cfg[k].(map[string]any)
						if isSec && hadSec {
							merged := map[string]any{}
							for kk, vv := range old {
								merged[kk] = vv
							}
							for kk, vv := range sec {
								merged[kk] = vv
							}
							cfg[k] = merged
						} else {
							cfg[k] = v
						}
					}
					cumCfg = cfg
					if op.Rendezvous && !sequential {
						c14h.mu.Lock()
						c14h.meet = make(chan struct{})
						c14h.mu.Unlock()
					}
					if op.PinFirst && !sequential {
						pinnedOK = false
						c14h.mu.Lock()
						if c14h.cfgDone == c14h.cfgStart {
							c14h.ov, c14h.ovFirst, c14h.ovBase = 1, make(chan struct{}), c14h.cfgDone
						}
						c14h.mu.Unlock()
					}
					if op.AnswerLate && !sequential {
						c14h.mu.Lock()
						c14h.lateFor = c14h.cfgDone + 1 // held until one more refresh (the next one) is done
						if c14h.cfgDone != c14h.cfgStart {
							c14h.lateFor = 0 // an earlier refresh is still under way: no telling whose answer would be held
						}
						c14h.mu.Unlock()
					}
					if op.RendezvousBumped && !sequential {
						c14h.mu.Lock()
						c14h.meet2 = make(chan struct{})
						c14h.mu.Unlock()
					}
					h.C.SetConfig(cfg)
					_ = h.ChangeConfiguration()
					cfgCalls++
					if op.PinFirst && !sequential {
						for deadline := time.Now().Add(2 * time.Second); time.Now().Before(deadline); {
							c14h.mu.Lock()
							pinnedOK = c14h.ov == 2
							c14h.mu.Unlock()
							if pinnedOK {
								break
							}
							time.Sleep(20 * time.Microsecond)
						}
						if !pinnedOK {
							c14h.mu.Lock()
							if c14h.ov == 2 {
								pinnedOK = true
							} else {
								c14h.ov = 0
							}
							c14h.mu.Unlock()
						}
					}
				case "request":
					cfgDone, inflight := c14h.snapshot()
					if inflight > 0 || busyBefore {
						run.overlap++
					}
					if op.WaitBumped && !sequential {
						for deadline := time.Now().Add(2 * time.Second); time.Now().Before(deadline); {
							c14h.mu.Lock()
							there := c14h.atBumped || c14h.meet2 == nil
							c14h.mu.Unlock()
							if there {
								break
							}
							time.Sleep(20 * time.Microsecond)
						}
					}
					var aerr error
					pos := op.Pos
					if op.AtEnd {
						pos = refclient.Pos{Line: max(0, strings.Count(curText[doc], "\n")-1)}
					}
					resp, aerr = ask2(h, op.Kind, uri, pos)
					if op.WaitBumped && !sequential {
						// a request that never reaches templates.computed has been answered inside the
						// window all the same: the refresh may go on
						c14h.mu.Lock()
						if ch := c14h.meet2; ch != nil {
							c14h.meet2 = nil
							close(ch)
						}
						c14h.mu.Unlock()
					}
					if aerr != nil {
						panic(aerr)
					}
					resp = strings.ReplaceAll(resp, env.Dir, "<ws>") // the two runs use different scratch directories
					// a response may depend on settings: comparable only when no refresh was in flight
					cfgDone2, _ := c14h.snapshot()
					compare = cfgDone >= cfgCalls && cfgDone2 == cfgDone
				}
			})
		}()
		select {
		case <-done:
		case <-time.After(30 * time.Second):
			buf := make([]byte, 1<<20)
			n := runtime.Stack(buf, true)
			dump := string(buf[:n])
			blocked := strings.Contains(dump, "sync.(*Mutex).Lock") || strings.Contains(dump, "sync.(*RWMutex)") || strings.Contains(dump, "semacquire")
			ds = append(ds, ev.D("c14.deadlock", "step %d (%s %s) did not return within 30 s; goroutines blocked in sync: %v\n%.3000s", si, op.Op, op.Kind, blocked, dump))
			return run, ds
		}
		if perr != nil {
			ds = append(ds, ev.D("c14.panic", "step %d (%s %s): %v", si, op.Op, op.Kind, perr))
			return run, ds
		}
		run.responses = append(run.responses, resp)
		run.compared = append(run.compared, compare)
		wait := op.Wait
		if sequential {
			wait = 2
		}
		switch wait {
		case 1:
			runtime.Gosched()
		case 2:
			if err := settle(0); err != nil {
				ds = append(ds, ev.D("c14.hang", "step %d: %v", si, err))
				return run, ds
			}
		}
	}
	_ = settle(0)
	for c14h.releaseOne(false) {
		_ = settle(0)
	}
	for d := range open {
		if open[d] {
			_ = h.Close(env.URIs[d])
		}
	}
	if err := h.Quiesce(); err != nil {
		ds = append(ds, ev.D("c14.hang", "end of history: %v", err))
	}
	return run, ds
}

// ask2 extends ask with the requests that need other parameters.
func ask2(h *lspx.Harness, kind, uri string, p refclient.Pos) (string, error) {
	switch kind {
	case "workspaceSymbol", "inlineCompletion", "rename":
		return askExtra(h, kind, uri, p)
	}
	return ask(h, kind, uri, p)
}

func c14Check(c *C14Case) ([]ev.Discrepancy, int) {
	before := raceLogSize()
	conc, ds := c14Execute(c, false, nil)
	if len(ds) > 0 {
		return ds, conc.overlap
	}
	// races reported while the history ran
	if after := raceLogSize(); after > before {
		if f, err := os.Open(raceLogPath()); err == nil {
			buf := make([]byte, after-before)
			_, _ = f.ReadAt(buf, before)
			f.Close()
			keys := raceKeys(string(buf))
			seen := map[string]bool{}
			for _, k := range keys {
				if seen[k] {
					continue
				}
				seen[k] = true
				if strings.Contains(k, "verifharness") && !strings.Contains(strings.ReplaceAll(k, "verifharness", ""), "hledger-lsp/internal") {
					continue // both frames in the harness: not a report about the repository
				}
				if strings.Count(k, "<outside the repository>") == 2 {
					continue
				}
				ds = append(ds, ev.Discrepancy{Assertion: "c14.race", Features: []string{k}, Detail: "data race between " + k + "\n" + firstReport(string(buf), k)})
			}
		}
	}
	if len(ds) > 0 {
		return ds, conc.overlap
	}
	seq, ds2 := c14Execute(c, true, conc)
	if len(ds2) > 0 {
		return ds2, conc.overlap
	}
	for i := range conc.responses {
		if i < len(seq.responses) && conc.compared[i] && c.Ops[i].Op == "request" && conc.responses[i] != seq.responses[i] {
			ds = append(ds, ev.D("c14.response", "step %d: %s at %d:%d answered %.400s while background work was running; a sequential replay answers %.400s", i, c.Ops[i].Kind, c.Ops[i].Pos.Line, c.Ops[i].Pos.Char, conc.responses[i], seq.responses[i]))
			break
		}
	}
	return ds, conc.overlap
}

func firstReport(text, key string) string {
	for _, rep := range strings.Split(text, "WARNING: DATA RACE") {
		ks := raceKeys("WARNING: DATA RACE" + rep)
		if len(ks) > 0 && ks[0] == key {
			if len(rep) > 2500 {
				rep = rep[:2500]
			}
			return rep
		}
	}
	return ""
}

// ---- generator ----

var c14Kinds = []string{"completion", "hover", "definition", "references", "documentSymbol", "folding", "formatting", "links", "semanticRange", "prepareRename", "workspaceSymbol", "inlineCompletion", "rename"}

func genC14Config(t *rapid.T) map[string]any {
	cfg := map[string]any{}
	if rapid.Bool().Draw(t, "c1") {
		cfg["completion"] = map[string]any{"maxResults": float64(rapid.IntRange(1, 100).Draw(t, "mr")), "fuzzyMatching": rapid.Bool().Draw(t, "fz")}
	}
	if rapid.Bool().Draw(t, "c2") {
		cfg["formatting"] = map[string]any{"indentSize": float64(rapid.IntRange(1, 8).Draw(t, "is"))}
	}
	if rapid.Bool().Draw(t, "c3") {
		// only the timeout: the path stays the default, nothing foreign is executed
		cfg["cli"] = map[string]any{"timeout": float64(rapid.IntRange(1000, 60000).Draw(t, "to"))}
	}
	if rapid.Bool().Draw(t, "c4") {
		lim := map[string]any{"maxIncludeDepth": float64(rapid.IntRange(1, 60).Draw(t, "md"))}
		if rapid.IntRange(0, 2).Draw(t, "c4size") == 0 {
			// around the size of the generated files: some included files pass, some do not
			lim["maxFileSizeBytes"] = float64(rapid.SampledFrom([]int{1, 64, 200, 400, 1000, 1 << 20}).Draw(t, "mfs"))
		}
		cfg["limits"] = lim
	}
	if rapid.Bool().Draw(t, "c5") {
		cfg["diagnostics"] = map[string]any{"undeclaredAccounts": rapid.Bool().Draw(t, "ua")}
	}
	return cfg
}

func genC14(t *rapid.T, p *gen.Profile) *C14Case {
	pools := gen.GenPools(t, p)
	jo := gen.JournalOpts{MinEntries: 1, MaxEntries: 4, Directives: true, Tx: gen.TxOpts{MaxPostings: 3, MaxScale: 2, MaxDigits: 4}}
	ws := gen.GenWorkspace(t, p, pools, gen.WSOpts{MinFiles: 1, MaxFiles: 3, AllReachable: true, Journal: jo})
	c := &C14Case{WS: ws, Root: rapid.Bool().Draw(t, "root")}
	n := len(ws.Files)
	for i := 0; i < n; i++ {
		var alts []*m.Journal
		for k := 0; k < 2; k++ {
			alts = append(alts, gen.GenFileIncluding(t, p, pools, jo, i, gen.IncludeTargets(ws.Files[i].Journal, i, n)))
		}
		c.Alts = append(c.Alts, alts)
	}
	// some included files have lines no journal has: the loader keeps their syntax errors with the
	// parsed file it remembers, and every resolution that reaches the file gets them
	faulty := map[int]bool{}
	for i := 1; i < n; i++ {
		if rapid.IntRange(0, 2).Draw(t, "faulty") == 0 {
			faulty[i] = true
			for _, l := range []string{"    orphaned:posting  1 EUR", "2024-13-45 no such day", "= = ="}[:rapid.IntRange(1, 3).Draw(t, "nfaults")] {
				raw := l
				ws.Files[i].Journal.Entries = append(ws.Files[i].Journal.Entries, m.Entry{Raw: &raw, Blank: 1})
			}
		}
	}
	steps := rapid.IntRange(4, 10).Draw(t, "steps")
	c.Ops = append(c.Ops, C14Op{Op: "open", Doc: 0, Wait: rapid.IntRange(0, 2).Draw(t, "w0")})
	for s := 0; s < steps; s++ {
		d := rapid.IntRange(0, n-1).Draw(t, "doc")
		op := C14Op{Doc: d, Wait: rapid.SampledFrom([]int{0, 0, 0, 1, 2}).Draw(t, "wait")}
		switch rapid.IntRange(0, 12).Draw(t, "op") {
		case 0:
			op.Op, op.Alt = "open", rapid.IntRange(0, 2).Draw(t, "alt")
			op.Hold = rapid.IntRange(0, 3).Draw(t, "hold") == 0
			if op.Hold {
				op.HoldAt = rapid.IntRange(0, 2).Draw(t, "holdat")
			}
		case 1, 2, 3:
			op.Op, op.Alt = "change", rapid.IntRange(0, 2).Draw(t, "alt")
			op.Hold = rapid.IntRange(0, 3).Draw(t, "hold") == 0
			if op.Hold {
				op.HoldAt = rapid.IntRange(0, 2).Draw(t, "holdat")
			}
		case 12:
			op.Op, op.LIFO = "release", rapid.Bool().Draw(t, "lifo")
		case 4:
			op.Op = "save"
		case 5:
			op.Op = "close"
		case 6, 7:
			op.Op, op.Config = "config", genC14Config(t)
		default:
			op.Op, op.Kind = "request", rapid.SampledFrom(c14Kinds).Draw(t, "kind")
			op.Pos = refclient.Pos{Line: rapid.IntRange(0, 12).Draw(t, "line"), Char: rapid.IntRange(0, 30).Draw(t, "char")}
		}
		c.Ops = append(c.Ops, op)
	}
	if rapid.IntRange(0, 3).Draw(t, "latepattern") == 0 {
		c.Pats = append(c.Pats, "pattern:late-analysis")
		// the analysis of a superseded version finishes after that of its successor, then requests
		d := rapid.IntRange(0, n-1).Draw(t, "pdoc")
		a1 := rapid.IntRange(0, 2).Draw(t, "palt1")
		a2 := (a1 + rapid.IntRange(1, 2).Draw(t, "palt2")) % 3
		c.Ops = append(c.Ops,
			C14Op{Op: "open", Doc: d, Alt: a1, Wait: 2},
			C14Op{Op: "change", Doc: d, Alt: a1, Hold: true},
			C14Op{Op: "change", Doc: d, Alt: a2, Wait: rapid.SampledFrom([]int{0, 2}).Draw(t, "pwait")},
			C14Op{Op: "release", Wait: 2})
		for k := rapid.IntRange(1, 3).Draw(t, "preqs"); k > 0; k-- {
			c.Ops = append(c.Ops, C14Op{Op: "request", Doc: d, Kind: rapid.SampledFrom([]string{"completion", "hover", "definition", "references", "rename", "inlineCompletion"}).Draw(t, "pkind"),
				Pos: refclient.Pos{Line: rapid.IntRange(0, 12).Draw(t, "pline"), Char: rapid.IntRange(0, 30).Draw(t, "pchar")}})
		}
	}
	if rapid.IntRange(0, 3).Draw(t, "configpattern") == 0 {
		c.Pats = append(c.Pats, "pattern:config-burst")
		// configuration changes in quick succession (limits among them, which rebuild the include trees)
		// with requests arriving meanwhile and after everything has settled
		d := rapid.IntRange(0, n-1).Draw(t, "cpdoc")
		c.Ops = append(c.Ops, C14Op{Op: "open", Doc: d, Wait: 2})
		for k := rapid.IntRange(2, 3).Draw(t, "cpchanges"); k > 0; k-- {
			cfg := genC14Config(t)
			cfg["limits"] = map[string]any{"maxIncludeDepth": float64(rapid.IntRange(1, 6).Draw(t, "cpdepth"))}
			c.Ops = append(c.Ops, C14Op{Op: "config", Doc: d, Config: cfg, Wait: rapid.SampledFrom([]int{0, 0, 1}).Draw(t, "cpwait")})
			c.Ops = append(c.Ops, C14Op{Op: "request", Doc: d, Kind: rapid.SampledFrom([]string{"completion", "inlineCompletion", "hover", "references"}).Draw(t, "cpkind"),
				Pos: refclient.Pos{Line: rapid.IntRange(0, 12).Draw(t, "cpline"), Char: rapid.IntRange(0, 30).Draw(t, "cpchar")}})
		}
		c.Ops = append(c.Ops, C14Op{Op: "request", Doc: d, Kind: "formatting", Wait: 2})
		for k := 0; k < 2; k++ {
			c.Ops = append(c.Ops, C14Op{Op: "request", Doc: d, Kind: rapid.SampledFrom([]string{"completion", "formatting", "inlineCompletion"}).Draw(t, "cpkind2"),
				Pos: refclient.Pos{Line: rapid.IntRange(0, 12).Draw(t, "cpline2"), Char: rapid.IntRange(0, 30).Draw(t, "cpchar2")}})
		}
	}
	if n >= 2 && rapid.IntRange(0, 3).Draw(t, "includepattern") == 0 {
		c.Pats = append(c.Pats, "pattern:included-file-changes-during-load")
		// an included file that is open changes while the analysis of the including document is
		// between reading that file and storing its result; then requests on the including document
		// an including document and one of the files it includes, when there is such a pair
		type edge struct{ from, to int }
		var edges []edge
		for i := 0; i < n; i++ {
			for _, k := range gen.IncludeTargets(ws.Files[i].Journal, i, n) {
				if k != i {
					edges = append(edges, edge{i, k})
				}
			}
		}
		d := rapid.IntRange(0, n-1).Draw(t, "ipdoc")
		e := rapid.IntRange(0, n-1).Draw(t, "ipinc")
		if len(edges) > 0 {
			ed := rapid.SampledFrom(edges).Draw(t, "ipedge")
			d, e = ed.from, ed.to
		}
		if rapid.IntRange(0, 2).Draw(t, "ipnoroot") != 0 {
			c.Root = false // with a workspace root the requests go to the workspace tree, not to the per-document one
		}
		a1 := rapid.IntRange(0, 2).Draw(t, "ipalt1")
		c.Ops = append(c.Ops,
			C14Op{Op: "open", Doc: e, Alt: a1, Wait: 2},
			C14Op{Op: "open", Doc: d, Wait: 2},
			C14Op{Op: "change", Doc: d, Alt: rapid.IntRange(0, 2).Draw(t, "ipalt0"), Hold: true, HoldAt: rapid.IntRange(1, 2).Draw(t, "ipat")},
			C14Op{Op: "change", Doc: e, Alt: (a1 + rapid.IntRange(1, 2).Draw(t, "ipalt2")) % 3, Wait: rapid.SampledFrom([]int{0, 2}).Draw(t, "ipwait")},
			C14Op{Op: "release", Wait: 2})
		for k := rapid.IntRange(1, 3).Draw(t, "ipreqs"); k > 0; k-- {
			c.Ops = append(c.Ops, C14Op{Op: "request", Doc: d, Kind: rapid.SampledFrom([]string{"completion", "hover", "definition", "references", "rename", "inlineCompletion"}).Draw(t, "ipkind"),
				Pos: refclient.Pos{Line: rapid.IntRange(0, 12).Draw(t, "ipline"), Char: rapid.IntRange(0, 30).Draw(t, "ipchar")}})
		}
	}
	if n >= 2 && rapid.IntRange(0, 3).Draw(t, "limitspattern") == 0 {
		// the include limits change while the analysis of an including document stands between
		// reading an included file (not open: it comes from disk, through the loader's cache) and
		// storing the tree; then requests on the including document
		type edge struct{ from, to int }
		var edges []edge
		for i := 0; i < n; i++ {
			for _, k := range gen.IncludeTargets(ws.Files[i].Journal, i, n) {
				if k != i {
					edges = append(edges, edge{i, k})
				}
			}
		}
		if len(edges) > 0 {
			ed := rapid.SampledFrom(edges).Draw(t, "lpedge")
			c.Pats = append(c.Pats, "pattern:limits-change-during-load")
			if rapid.IntRange(0, 2).Draw(t, "lpnoroot") != 0 {
				c.Root = false
			}
			lim := map[string]any{}
			if rapid.Bool().Draw(t, "lpdepth") {
				lim["maxIncludeDepth"] = float64(rapid.IntRange(1, 2).Draw(t, "lpmd"))
			} else if rapid.IntRange(0, 3).Draw(t, "lpcoarse") == 0 {
				lim["maxFileSizeBytes"] = float64(rapid.SampledFrom([]int{1, 32, 100, 200, 400}).Draw(t, "lpmfs"))
			} else {
				// a limit that every text of the including document passes and the included file
				// (made longer if need be) does not
				dmax := 0
				for _, dj := range append([]*m.Journal{ws.Files[ed.from].Journal}, c.Alts[ed.from]...) {
					if sz := len(m.Render(dj).Text); sz > dmax {
						dmax = sz
					}
				}
				margin := rapid.IntRange(0, 16).Draw(t, "lpmargin")
				ej := ws.Files[ed.to].Journal
				for k := 0; k < 64 && len(m.Render(ej).Text) <= dmax+margin; k++ {
					ej.Entries = append(ej.Entries, m.Entry{Tx: gen.GenTx(t, p, pools, jo.Tx), Blank: 1})
				}
				lim["maxFileSizeBytes"] = float64(dmax + margin)
				c.Pats = append(c.Pats, "pattern:size-limit-between-document-and-included-file")
			}
			for k := 0; k < n; k++ {
				if k != ed.from {
					c.Ops = append(c.Ops, C14Op{Op: "close", Doc: k})
				}
			}
			c.Ops = append(c.Ops,
				C14Op{Op: "open", Doc: ed.from, Wait: 2},
				C14Op{Op: "change", Doc: ed.from, Alt: rapid.IntRange(0, 2).Draw(t, "lpalt"), Hold: true, HoldAt: rapid.IntRange(1, 2).Draw(t, "lpat")},
				C14Op{Op: "config", Doc: ed.from, Config: map[string]any{"limits": lim}, Wait: rapid.SampledFrom([]int{0, 2, 2}).Draw(t, "lpwait")},
				C14Op{Op: "release", Wait: 2})
			for k := rapid.IntRange(1, 3).Draw(t, "lpreqs"); k > 0; k-- {
				c.Ops = append(c.Ops, C14Op{Op: "request", Doc: ed.from, Kind: rapid.SampledFrom([]string{"completion", "hover", "references", "inlineCompletion", "completion"}).Draw(t, "lpkind"),
					Pos: refclient.Pos{Line: rapid.IntRange(0, 12).Draw(t, "lpline"), Char: rapid.IntRange(0, 30).Draw(t, "lpchar")}})
			}
		}
	}
	if n >= 2 && rapid.IntRange(0, 3).Draw(t, "templatespattern") == 0 {
		// a request stands between computing and remembering the posting templates of its document
		// while a configuration refresh lowers the size limit so that the included file the template
		// comes from is refused; the same request again, after everything has settled
		type edge struct{ from, to int }
		var edges []edge
		for i := 0; i < n; i++ {
			for _, k := range gen.IncludeTargets(ws.Files[i].Journal, i, n) {
				if k != i {
					edges = append(edges, edge{i, k})
				}
			}
		}
		if len(edges) > 0 {
			ed := rapid.SampledFrom(edges).Draw(t, "tpedge")
			c.Pats = append(c.Pats, "pattern:templates-remembered-across-a-limits-change")
			// the request meets the refresh before setSettings, or inside it (then what it collects comes
			// from the workspace, which is rebuilt last)
			inside := rapid.Bool().Draw(t, "tpinside")
			if inside {
				c.Root = true
				c.Pats = append(c.Pats, "pattern:request-inside-setSettings")
			} else if rapid.IntRange(0, 2).Draw(t, "tpnoroot") != 0 {
				c.Root = false
			}
			header := func() m.Entry {
				return m.Entry{Tx: &m.Tx{Date: m.Date{Y: 2031, M: 1, D: 2, Sep: "-", Pad: true}, Payee: "tmpl payee"}, Blank: 1}
			}
			dtexts := append([]*m.Journal{ws.Files[ed.from].Journal}, c.Alts[ed.from]...)
			dmax := 0
			for _, dj := range dtexts {
				dj.Entries = append(dj.Entries, header())
				if sz := len(m.Render(dj).Text); sz > dmax {
					dmax = sz
				}
			}
			ej := ws.Files[ed.to].Journal
			ej.Entries = append(ej.Entries, m.Entry{Tx: &m.Tx{Date: m.Date{Y: 2030, M: 5, D: 6, Sep: "-", Pad: true}, Payee: "tmpl payee",
				Body: []m.BodyItem{{P: &m.Posting{Account: pools.Accounts[0], Amt: gen.GenAmountFor(t, p, "EUR", m.Num{Mant: "42", Scale: 0}), Indent: "    ", Sep: "  "}},
					{P: &m.Posting{Account: pools.Accounts[len(pools.Accounts)-1], Indent: "    ", Sep: "  "}}}}, Blank: 1})
			for k := 0; k < 64 && len(m.Render(ej).Text) <= dmax+8; k++ {
				ej.Entries = append(ej.Entries, m.Entry{Tx: gen.GenTx(t, p, pools, jo.Tx), Blank: 1})
			}
			for k := 0; k < n; k++ {
				if k != ed.from {
					c.Ops = append(c.Ops, C14Op{Op: "close", Doc: k})
				}
			}
			c.Ops = append(c.Ops,
				C14Op{Op: "open", Doc: ed.from, Wait: 2},
				C14Op{Op: "change", Doc: ed.from, Alt: rapid.IntRange(0, 2).Draw(t, "tpalt"), Wait: 2},
				C14Op{Op: "request", Doc: ed.from, Kind: "inlineCompletion", AtEnd: true, Wait: 2}, // the template is there
				C14Op{Op: "change", Doc: ed.from, Alt: rapid.IntRange(0, 2).Draw(t, "tpalt2"), Wait: 2},
				C14Op{Op: "config", Doc: ed.from, Config: map[string]any{"limits": map[string]any{"maxFileSizeBytes": float64(dmax + rapid.IntRange(0, 8).Draw(t, "tpmargin"))}}, Rendezvous: !inside, RendezvousBumped: inside},
				C14Op{Op: "request", Doc: ed.from, Kind: "inlineCompletion", AtEnd: true, Wait: 2, WaitBumped: inside},
				C14Op{Op: "request", Doc: ed.from, Kind: "inlineCompletion", AtEnd: true, Wait: 2})
		}
	}
	if rapid.IntRange(0, 3).Draw(t, "latepattern") == 0 {
		// a value is set and set back (or set to a third value) in quick succession, and the answer to the
		// older question reaches the server after the answer to the newer one
		c.Pats = append(c.Pats, "pattern:configuration-answers-out-of-order")
		d := rapid.IntRange(0, n-1).Draw(t, "lapdoc")
		mk := func(v int) map[string]any {
			return map[string]any{"formatting": map[string]any{"indentSize": float64(v)}, "completion": map[string]any{"maxResults": float64(v)}}
		}
		v0, v1 := rapid.IntRange(1, 8).Draw(t, "lapv0"), rapid.IntRange(1, 8).Draw(t, "lapv1")
		v2 := rapid.SampledFrom([]int{v0, v0, rapid.IntRange(1, 8).Draw(t, "lapv2")}).Draw(t, "lapback")
		if v2 == v0 {
			c.Pats = append(c.Pats, "pattern:value-set-and-set-back")
		}
		c.Ops = append(c.Ops,
			C14Op{Op: "open", Doc: d, Wait: 2},
			C14Op{Op: "config", Doc: d, Config: mk(v0), Wait: 2},
			C14Op{Op: "config", Doc: d, Config: mk(v1), AnswerLate: true},
			C14Op{Op: "config", Doc: d, Config: mk(v2), Wait: 2},
			C14Op{Op: "request", Doc: d, Kind: "formatting", Wait: 2},
			C14Op{Op: "request", Doc: d, Kind: "completion", Pos: refclient.Pos{Line: rapid.IntRange(0, 12).Draw(t, "lapline"), Char: rapid.IntRange(0, 30).Draw(t, "lapchar")}, Wait: 2})
	}
	if len(faulty) > 0 && rapid.IntRange(0, 1).Draw(t, "faultypattern") == 0 {
		// two analyses of a document whose include tree holds such a file (closed, remembered by the
		// loader) are let go at the same moment
		for from := 0; from < n; from++ {
			hit := -1
			for _, to := range ws.Includes[from] {
				if faulty[to] {
					hit = to
				}
			}
			if hit < 0 {
				continue
			}
			c.Pats = append(c.Pats, "pattern:two-analyses-side-by-side-over-a-remembered-file-with-syntax-errors")
			c.Ops = append(c.Ops,
				C14Op{Op: "close", Doc: hit, Wait: 2},
				C14Op{Op: "open", Doc: from, Wait: 2},
				C14Op{Op: "change", Doc: from, Alt: 1, Hold: true},
				C14Op{Op: "change", Doc: from, Alt: 2, Hold: true},
				C14Op{Op: "release", Together: true, Wait: 2},
				C14Op{Op: "request", Doc: from, Kind: rapid.SampledFrom([]string{"completion", "hover", "references"}).Draw(t, "fpkind"),
					Pos: refclient.Pos{Line: rapid.IntRange(0, 12).Draw(t, "fpline"), Char: rapid.IntRange(0, 30).Draw(t, "fpchar")}, Wait: 2})
			break
		}
	}
	if n >= 2 && !contains(c.Pats, "pattern:request-inside-setSettings") && rapid.IntRange(0, 3).Draw(t, "bumpedpattern") == 0 {
		// without a workspace folder: the include limits change, and a request that resolves an include
		// tree is answered while the refresh stands inside setSettings (old trees outdated, the rest not
		// yet done); the same request once everything has settled must see the new limits
		for from := 0; from < n; from++ {
			if len(ws.Includes[from]) == 0 {
				continue
			}
			c.Root = false
			c.Pats = append(c.Pats, "pattern:request-inside-setSettings-without-a-folder")
			pos := refclient.Pos{Line: rapid.IntRange(0, 12).Draw(t, "bpline"), Char: rapid.IntRange(0, 30).Draw(t, "bpchar")}
			c.Ops = append(c.Ops,
				C14Op{Op: "open", Doc: from, Wait: 2},
				C14Op{Op: "request", Doc: from, Kind: "completion", Pos: pos, Wait: 2},
				C14Op{Op: "config", Doc: from, Config: map[string]any{"limits": map[string]any{"maxIncludeDepth": float64(rapid.IntRange(1, 2).Draw(t, "bpdepth"))}}, RendezvousBumped: true},
				C14Op{Op: "request", Doc: from, Kind: "completion", Pos: pos, WaitBumped: true, Wait: 2},
				C14Op{Op: "request", Doc: from, Kind: "completion", Pos: pos, Wait: 2},
				C14Op{Op: "request", Doc: from, Kind: "references", Pos: pos, Wait: 2})
			break
		}
	}
	if rapid.IntRange(0, 3).Draw(t, "overlappattern") == 0 {
		// two settings changed one after the other, each by a configuration that names only that setting;
		// both questions are asked before either answer is applied, the answers come in order
		c.Pats = append(c.Pats, "pattern:overlapping-refreshes-with-partial-answers")
		d := rapid.IntRange(0, n-1).Draw(t, "ovdoc")
		v0 := rapid.IntRange(1, 8).Draw(t, "ovv0")
		v1 := (v0 + rapid.IntRange(1, 6).Draw(t, "ovv1") - 1) % 8 + 1
		c.Ops = append(c.Ops,
			C14Op{Op: "open", Doc: d, Wait: 2},
			C14Op{Op: "config", Doc: d, Config: map[string]any{"formatting": map[string]any{"indentSize": float64(v0)}, "completion": map[string]any{"maxResults": float64(40)}}, Wait: 2},
			C14Op{Op: "config", Doc: d, Config: map[string]any{"formatting": map[string]any{"indentSize": float64(v1)}}, Replace: true, PinFirst: true},
			C14Op{Op: "config", Doc: d, Config: map[string]any{"completion": map[string]any{"maxResults": float64(rapid.IntRange(1, 30).Draw(t, "ovmax"))}}, Replace: true, Wait: 2},
			C14Op{Op: "request", Doc: d, Kind: "formatting", Wait: 2},
			C14Op{Op: "request", Doc: d, Kind: "completion", Pos: refclient.Pos{Line: rapid.IntRange(0, 12).Draw(t, "ovline"), Char: rapid.IntRange(0, 30).Draw(t, "ovchar")}, Wait: 2})
	}
	nd := rapid.IntRange(0, 12).Draw(t, "ndelays")
	for i := 0; i < nd; i++ {
		c.Delays = append(c.Delays, rapid.SampledFrom([]int{0, 10, 100, 500, 2000}).Draw(t, "delay"))
	}
	return c
}

var recC14 = ev.New("C14")

func TestC14(t *testing.T) {
	defer recC14.Flush()
	recC14.Set("race_detector", raceLogPath() != "")
	rapid.Check(t, func(t *rapid.T) {
		c := genC14(t, profileFor(recC14))
		ds, overlap := c14Check(c)
		nt := overlap > 0
		var cls []string
		for _, op := range c.Ops {
			cls = append(cls, "op:"+op.Op)
		}
		cls = append(cls, c.Pats...)
		recC14.Case(nt, mustJSON(c), dedupe(cls)...)
		recC14.Count("requests_overlapping_background_work", int64(overlap))
		if nt && recC14.WantSample() {
			recC14.Sample(map[string]any{"root": c.Root, "ops": c.Ops, "delays": c.Delays})
		}
		report(t, recC14, "c14", c, ds)
	})
}

func dedupe(s []string) []string {
	seen := map[string]bool{}
	var o []string
	for _, x := range s {
		if !seen[x] {
			seen[x] = true
			o = append(o, x)
		}
	}
	return o
}

func init() {
	replayers["c14"] = func(raw json.RawMessage) ([]ev.Discrepancy, error) {
		var c C14Case
		if err := json.Unmarshal(raw, &c); err != nil {
			return nil, err
		}
		// a race needs the interleaving to occur: try the history several times
		for i := 0; i < 20; i++ {
			if ds, _ := c14Check(&c); len(ds) > 0 {
				return ds, nil
			}
		}
		return nil, nil
	}
	_ = filepath.Join
}
