package checks

// C15 — responses are a function of workspace state (determinism).
// Oracle: the same battery of requests on R fresh servers in this process must
// give byte-identical canonical JSON; the driver additionally runs every shard
// with the same generator seed and compares the per-case digests across the
// fresh processes (different hash seeds).

import (
	"context"
	"crypto/sha256"
	"encoding/hex"
	"encoding/json"
	"fmt"
	"os"
	"path/filepath"
	"strings"
	"testing"

	"go.lsp.dev/protocol"
	"pgregory.net/rapid"

	"github.com/juev/hledger-lsp/verifharness/ev"
	"github.com/juev/hledger-lsp/verifharness/gen"
	"github.com/juev/hledger-lsp/verifharness/lspx"
	m "github.com/juev/hledger-lsp/verifharness/model"
	"github.com/juev/hledger-lsp/verifharness/refclient"
)

type C15Case struct {
	WS   *gen.Workspace `json:"ws"`
	Root bool           `json:"root"`
	Open []int          `json:"open"` // files opened as documents (>=2 when possible)
	// Staged: main.journal is on disk (and is first opened) without its include directives; a change
	// then brings the buffer to its full text, so that all its includes join the workspace at once
	Staged bool `json:"staged,omitempty"`
	// Restored: main.journal is opened with its full text, then changed to the text without its
	// include directives and changed back. Files and buffers end exactly as without the detour.
	Restored bool `json:"restored,omitempty"`
}

func c15WithoutIncludes(j *m.Journal) *m.Journal {
	nj := &m.Journal{NL: j.NL}
	for _, e := range j.Entries {
		if e.Dir != nil && e.Dir.Kind == "include" {
			continue
		}
		nj.Entries = append(nj.Entries, e)
	}
	return nj
}

// c15Battery runs every request on a fresh server and returns one canonical string per answer.
func c15Battery(c *C15Case, dir string) ([]string, []string, error) {
	var out, labels []string
	// a fixed directory name so that URIs inside answers are identical between runs
	_ = os.RemoveAll(dir)
	_ = os.MkdirAll(filepath.Join(dir, "sub"), 0o755)
	defer os.RemoveAll(dir)
	var disk []*m.Rendered
	var uris []string
	for _, f := range c.WS.Files {
		r := m.Render(f.Journal)
		disk = append(disk, r)
		p := filepath.Join(dir, f.Rel)
		uris = append(uris, "file://"+p)
		txt := r.Text
		if c.Staged && len(disk) == 1 {
			txt = m.Render(c15WithoutIncludes(f.Journal)).Text
		}
		if err := os.WriteFile(p, []byte(txt), 0o644); err != nil {
			return nil, nil, err
		}
	}
	opts := lspx.Options{}
	if c.Root {
		opts.RootDir = dir
	}
	h, err := lspx.New(opts)
	if err != nil {
		return nil, nil, err
	}
	for _, fi := range c.Open {
		txt := disk[fi].Text
		if c.Staged && fi == 0 {
			txt = m.Render(c15WithoutIncludes(c.WS.Files[0].Journal)).Text
		}
		if err := h.Open(uris[fi], txt); err != nil {
			return nil, nil, err
		}
	}
	if err := h.Quiesce(); err != nil {
		return nil, nil, err
	}
	if c.Restored && !c.Staged {
		if err := h.Change(uris[0], 2, []refclient.Change{{Text: m.Render(c15WithoutIncludes(c.WS.Files[0].Journal)).Text}}); err != nil {
			return nil, nil, err
		}
		if err := h.Quiesce(); err != nil {
			return nil, nil, err
		}
		if err := h.Change(uris[0], 3, []refclient.Change{{Text: disk[0].Text}}); err != nil {
			return nil, nil, err
		}
		if err := h.Quiesce(); err != nil {
			return nil, nil, err
		}
	}
	if c.Staged {
		if err := h.Change(uris[0], 2, []refclient.Change{{Text: disk[0].Text}}); err != nil {
			return nil, nil, err
		}
		if err := h.Quiesce(); err != nil {
			return nil, nil, err
		}
	}
	put := func(label string, v any, err error) {
		b, _ := json.Marshal(v)
		s := string(b)
		if err != nil {
			s = "error: " + err.Error()
		}
		out = append(out, s)
		labels = append(labels, label)
	}
	ctx := context.Background()
	for _, fi := range c.Open {
		uri := uris[fi]
		d, _ := h.C.LastDiagnostics(uri)
		put("diagnostics "+c.WS.Files[fi].Rel, d, nil)
		ds, err := h.S.DocumentSymbol(ctx, &protocol.DocumentSymbolParams{TextDocument: tdi(uri)})
		put("documentSymbol", ds, err)
		fr, err := h.S.FoldingRanges(ctx, &protocol.FoldingRangeParams{TextDocumentPositionParams: tdpp(uri, refclient.Pos{})})
		put("folding", fr, err)
		ln, err := h.S.DocumentLink(ctx, &protocol.DocumentLinkParams{TextDocument: tdi(uri)})
		put("links", ln, err)
		fm, err := h.S.Format(ctx, &protocol.DocumentFormattingParams{TextDocument: tdi(uri)})
		put("formatting", fm, err)
		st, err := h.S.SemanticTokensRange(ctx, &protocol.SemanticTokensRangeParams{TextDocument: tdi(uri), Range: protocol.Range{End: protocol.Position{Line: 1 << 20}}})
		put("semanticTokens", st, err)
		buf := refclient.New(disk[fi].Text)
		for li := 0; li < buf.LineCount(); li++ {
			info := "blank"
			if li < len(disk[fi].LineInfo) {
				info = disk[fi].LineInfo[li].Kind
			}
			if info == "blank" && li != buf.LineCount()-1 {
				// completion on blank lines is date completion (wall clock), excluded by the property
				ic, err := h.S.InlineCompletion(ctx, mustJSON(map[string]any{"textDocument": map[string]any{"uri": uri}, "position": map[string]any{"line": li, "character": 0}, "context": map[string]any{"triggerKind": 1}}))
				put(fmt.Sprintf("inlineCompletion %d", li), ic, err)
				continue
			}
			ll := buf.LineLen(li)
			for _, ch := range []int{ll, ll / 2, ll / 3} {
				pos := refclient.Pos{Line: li, Char: ch}
				if buf.ValidatePos(pos) != nil {
					continue
				}
				if info != "blank" && info != "topcomment" && ll > 0 {
					cp, err := h.S.Completion(ctx, &protocol.CompletionParams{TextDocumentPositionParams: tdpp(uri, pos)})
					// date completion depends on the wall clock: keep everything but date items
					if cp != nil {
						var keep []protocol.CompletionItem
						for _, it := range cp.Items {
							if it.Kind != protocol.CompletionItemKindConstant {
								keep = append(keep, it)
							}
						}
						cp.Items = keep
					}
					put(fmt.Sprintf("completion %d:%d", li, ch), cp, err)
				}
				hv, err := h.S.Hover(ctx, &protocol.HoverParams{TextDocumentPositionParams: tdpp(uri, pos)})
				put(fmt.Sprintf("hover %d:%d", li, ch), hv, err)
				rf, err := h.S.References(ctx, &protocol.ReferenceParams{TextDocumentPositionParams: tdpp(uri, pos), Context: protocol.ReferenceContext{IncludeDeclaration: true}})
				put(fmt.Sprintf("references %d:%d", li, ch), rf, err)
				df, err := h.S.Definition(ctx, &protocol.DefinitionParams{TextDocumentPositionParams: tdpp(uri, pos)})
				put(fmt.Sprintf("definition %d:%d", li, ch), df, err)
			}
		}
	}
	ws, err := h.S.WorkspaceSymbol(ctx, &protocol.WorkspaceSymbolParams{Query: ""})
	put("workspaceSymbol", ws, err)
	for _, fi := range c.Open {
		_ = h.Close(uris[fi])
	}
	_ = h.Quiesce()
	return out, labels, nil
}

func c15Repeats() int {
	if tier() == "thorough" {
		return 50
	}
	return 10
}

func c15Check(c *C15Case, repeats int) ([]ev.Discrepancy, string, int) {
	dir := filepath.Join(scratch(), "c15ws")
	first, labels, err := c15Battery(c, dir)
	if err != nil {
		return []ev.Discrepancy{ev.D("c15.harness", "%v", err)}, "", 0
	}
	var ds []ev.Discrepancy
	for r := 1; r < repeats && len(ds) == 0; r++ {
		again, _, err := c15Battery(c, dir)
		if err != nil {
			return []ev.Discrepancy{ev.D("c15.harness", "%v", err)}, "", 0
		}
		if len(again) != len(first) {
			ds = append(ds, ev.D("c15.count", "run %d produced %d answers, the first run %d", r, len(again), len(first)))
			break
		}
		for i := range first {
			if first[i] != again[i] {
				ds = append(ds, ev.D("c15.differs."+strings.Fields(labels[i])[0], "answer to %q differs between two fresh servers on the same files:\n  run 0: %.700s\n  run %d: %.700s", labels[i], first[i], r, again[i]))
				break
			}
		}
	}
	// the same files and buffers reached without the detour through other texts: same answers
	if (c.Restored || c.Staged) && len(ds) == 0 {
		plain := *c
		plain.Restored, plain.Staged = false, false
		direct, _, err := c15Battery(&plain, dir)
		if err != nil {
			return []ev.Discrepancy{ev.D("c15.harness", "%v", err)}, "", 0
		}
		how := "opened without its include directives and then changed to its full text"
		if !c.Staged {
			how = "changed to the text without its include directives and back"
		}
		for i := range first {
			// published diagnostics are pushed when a notification arrives, for the document it names:
			// those of another open document are not a function of the final state alone. Responses are.
			if strings.HasPrefix(labels[i], "diagnostics ") {
				continue
			}
			if i < len(direct) && first[i] != direct[i] {
				ds = append(ds, ev.D("c15.history."+strings.Fields(labels[i])[0], "answer to %q depends on how the buffers came to their contents (main.journal %s):\n  with the detour: %.700s\n  opened directly: %.700s", labels[i], how, first[i], direct[i]))
				break
			}
		}
	}
	// the digest compared across processes must not depend on the scratch directory
	sum := sha256.Sum256([]byte(strings.ReplaceAll(strings.Join(first, "\x00"), dir, "<ws>")))
	return ds, hex.EncodeToString(sum[:8]), len(first)
}

func genC15(t *rapid.T, p *gen.Profile) *C15Case {
	pools := gen.GenPools(t, p)
	// few names, many uses: ties in usage counts and shared names across files
	if len(pools.Accounts) > 4 {
		pools.Accounts = pools.Accounts[:4]
	}
	jo := gen.JournalOpts{MinEntries: 2, MaxEntries: 5, Directives: true, TopComments: false, Tx: gen.TxOpts{MaxPostings: 5, MaxScale: 2, MaxDigits: 4}}
	ws := gen.GenWorkspace(t, p, pools, gen.WSOpts{MinFiles: 2, MaxFiles: 4, AllReachable: true, Journal: jo})
	nested := rapid.IntRange(0, 3).Draw(t, "nested") == 0
	if nested {
		// an include with includes of its own stands before a sibling: main -> a, b; a -> sub/c. Depth
		// first (the order of a fresh resolution) gives a, sub/c, b; breadth first a, b, sub/c
		jo.NoIncludes = true
		ws = &gen.Workspace{Includes: [][]int{{1, 2}, {3}, nil, nil}}
		for i := 0; i < 4; i++ {
			ws.Files = append(ws.Files, gen.WSFile{Rel: gen.WSNames[i], Journal: gen.GenJournal(t, p, pools, jo)})
		}
		inc := func(path string) m.Entry { return m.Entry{Dir: &m.Directive{Kind: "include", Path: path}} }
		ws.Files[0].Journal.Entries = append([]m.Entry{inc("a.journal"), inc("b.journal")}, ws.Files[0].Journal.Entries...)
		ws.Files[1].Journal.Entries = append([]m.Entry{inc("sub/c.journal")}, ws.Files[1].Journal.Entries...)
	}
	// make sure one transaction is out of balance in several commodities
	syms := append([]string{}, pools.Syms...)
	for len(syms) < 3 {
		syms = append(syms, []string{"XAA", "XBB", "XCC"}[len(syms)])
	}
	tx := gen.GenTx(t, p, pools, gen.TxOpts{MaxPostings: 0})
	tx.Body = nil
	for i, s := range syms {
		a := gen.GenAmountFor(t, p, s, m.Num{Mant: fmt.Sprint(i + 1), Scale: 0})
		tx.Body = append(tx.Body, m.BodyItem{P: &m.Posting{Account: pools.Accounts[i%len(pools.Accounts)], Amt: a, Indent: "    ", Sep: "  "}})
	}
	f0 := ws.Files[0].Journal
	f0.Entries = append(f0.Entries, m.Entry{Tx: tx, Blank: 1})
	// ... and one in commodities whose names differ only in case: the order in which the message names
	// them must not come from a map
	txc := gen.GenTx(t, p, pools, gen.TxOpts{MaxPostings: 0})
	txc.Body = nil
	for i, s := range rapid.Permutation([]string{"qqq", "QQQ", "Qqq", "qQq"}).Draw(t, "casesyms") {
		txc.Body = append(txc.Body, m.BodyItem{P: &m.Posting{Account: pools.Accounts[i%len(pools.Accounts)], Amt: &m.Amount{Q: m.Num{Mant: fmt.Sprint(i + 1)}, Sym: s, SymSpace: true}, Indent: "    ", Sep: "  "}})
	}
	f0.Entries = append(f0.Entries, m.Entry{Tx: txc, Blank: 1})
	// a payee and a commodity format that only the included files know, each file differently: whose
	// template / format is used must not depend on anything but the include directives
	for i := 1; i < len(ws.Files); i++ {
		fj := ws.Files[i].Journal
		amt := gen.GenAmountFor(t, p, "ZZZ", m.Num{Mant: fmt.Sprint(10 + i), Scale: 1})
		fj.Entries = append(fj.Entries,
			m.Entry{Dir: &m.Directive{Kind: "commodity", Fmt: &m.Fmt{Sym: "ZZZ", Space: true, Dec: ".", Decimals: i + 1}}, Blank: 1},
			m.Entry{Tx: &m.Tx{Date: m.Date{Y: 2030, M: 2, D: i, Sep: "-", Pad: true}, Payee: "only in includes",
				Body: []m.BodyItem{{P: &m.Posting{Account: pools.Accounts[i%len(pools.Accounts)], Amt: amt, Indent: "    ", Sep: "  "}},
					{P: &m.Posting{Account: pools.Accounts[(i+1)%len(pools.Accounts)], Indent: "    ", Sep: "  "}}}}, Blank: 1})
	}
	// names that differ only in case, one spelling per included file, used equally often: their
	// order in a completion list must not depend on the order in which the files were collected
	payeeCase := []string{"AMAZON", "Amazon", "amazon"}
	acctCase := []string{"Expenses:Food", "expenses:food", "EXPENSES:FOOD"}
	for i := 1; i < len(ws.Files); i++ {
		fj := ws.Files[i].Journal
		fj.Entries = append(fj.Entries, m.Entry{Tx: &m.Tx{Date: m.Date{Y: 2030, M: 4, D: i, Sep: "-", Pad: true}, Payee: payeeCase[(i-1)%3],
			Body: []m.BodyItem{{P: &m.Posting{Account: acctCase[(i-1)%3], Amt: gen.GenAmountFor(t, p, "ZZZ", m.Num{Mant: "1", Scale: 0}), Indent: "    ", Sep: "  "}},
				{P: &m.Posting{Account: pools.Accounts[0], Indent: "    ", Sep: "  "}}}}, Blank: 1})
	}
	f0.Entries = append(f0.Entries, m.Entry{Tx: &m.Tx{Date: m.Date{Y: 2030, M: 4, D: 9, Sep: "-", Pad: true}, Payee: "amaz",
		Body: []m.BodyItem{{P: &m.Posting{Account: "expenses:fo", Amt: gen.GenAmountFor(t, p, "ZZZ", m.Num{Mant: "1", Scale: 0}), Indent: "    ", Sep: "  "}},
			{P: &m.Posting{Account: "expenses:fo", Indent: "    ", Sep: "  "}}}}, Blank: 1})
	f0.Entries = append(f0.Entries,
		m.Entry{Tx: &m.Tx{Date: m.Date{Y: 2030, M: 3, D: 1, Sep: "-", Pad: true}, Payee: "uses zzz",
			Body: []m.BodyItem{{P: &m.Posting{Account: pools.Accounts[0], Amt: gen.GenAmountFor(t, p, "ZZZ", m.Num{Mant: "15", Scale: 1}), Indent: "    ", Sep: "  "}},
				{P: &m.Posting{Account: pools.Accounts[len(pools.Accounts)-1], Indent: "    ", Sep: "  "}}}}, Blank: 1},
		m.Entry{Tx: &m.Tx{Date: m.Date{Y: 2031, M: 1, D: 20, Sep: "-", Pad: true}, Payee: "only in includes"}, Blank: 1})
	// a header without postings for every payee: the blank line after it is where the posting
	// template of that payee (whichever file it comes from) is offered as ghost text
	for i, py := range pools.Payees {
		f0.Entries = append(f0.Entries, m.Entry{Tx: &m.Tx{Date: m.Date{Y: 2031, M: 1, D: i + 1, Sep: "-", Pad: true}, Payee: py}, Blank: 1})
	}
	c := &C15Case{WS: ws, Root: rapid.Bool().Draw(t, "root"), Open: []int{0, 1}}
	if len(ws.Files) > 2 && rapid.Bool().Draw(t, "open3") {
		c.Open = append(c.Open, 2)
	}
	if len(ws.Files) >= 4 && rapid.Bool().Draw(t, "samebase") {
		// two open documents with the same file name in different directories: nothing that is listed
		// per document may be ordered by the file name alone
		old, neu := ws.Files[3].Rel, "sub/a.journal"
		for i := range ws.Files {
			for k := range ws.Files[i].Journal.Entries {
				if d := ws.Files[i].Journal.Entries[k].Dir; d != nil && d.Kind == "include" && d.Path == gen.RelFrom(ws.Files[i].Rel, old) {
					d.Path = gen.RelFrom(ws.Files[i].Rel, neu)
				}
			}
		}
		ws.Files[3].Rel = neu
		c.Open = append(c.Open, 3)
	}
	c.Staged = rapid.IntRange(0, 2).Draw(t, "staged") == 0
	c.Restored = !c.Staged && rapid.IntRange(0, 1).Draw(t, "restored") == 0
	return c
}

var recC15 = ev.New("C15")

func TestC15(t *testing.T) {
	defer recC15.Flush()
	digests, _ := os.Create(filepath.Join(os.Getenv("VERIF_OUT"), "digests.txt"))
	if digests != nil {
		defer digests.Close()
	}
	rapid.Check(t, func(t *rapid.T) {
		c := genC15(t, profileFor(recC15))
		ds, digest, n := c15Check(c, c15Repeats())
		recC15.Case(true, mustJSON(c), fmt.Sprintf("root:%v", c.Root), fmt.Sprintf("open:%d", len(c.Open)), fmt.Sprintf("open-documents-with-equal-file-names:%v", len(c.WS.Files) >= 4 && c.WS.Files[3].Rel == "sub/a.journal"), fmt.Sprintf("history:staged=%v,restored=%v", c.Staged, c.Restored),
			fmt.Sprintf("nested-include-before-sibling:%v", len(c.WS.Includes) == 4 && len(c.WS.Includes[0]) == 2 && len(c.WS.Includes[1]) == 1 && c.WS.Includes[1][0] == 3))
		recC15.Count("answers_compared", int64(n*c15Repeats()))
		if recC15.WantSample() {
			var sb strings.Builder
			for _, f := range c.WS.Files {
				sb.WriteString("== " + f.Rel + "\n" + m.Render(f.Journal).Text)
			}
			recC15.Sample(map[string]any{"root": c.Root, "open": c.Open, "files": sb.String()})
		}
		if digests != nil && len(ds) == 0 {
			fmt.Fprintf(digests, "%x\t%s\t%s\n", ev.Hash(mustJSON(c)), digest, mustJSON(c))
		}
		report(t, recC15, "c15", c, ds)
	})
}

func init() {
	replayers["c15"] = func(raw json.RawMessage) ([]ev.Discrepancy, error) {
		var c C15Case
		if err := json.Unmarshal(raw, &c); err != nil {
			return nil, err
		}
		ds, _, _ := c15Check(&c, 30)
		return ds, nil
	}
}
