package checks

// C16 — completion is sound, complete for prefixes, bounded and frequency-ranked.
// Oracle: the names and usage counts known from the model over the files in
// scope, and typing situations built so that the typed fragment is known.

import (
	"context"
	"encoding/json"
	"fmt"
	"sort"
	"strings"
	"testing"
	"unicode"

	"go.lsp.dev/protocol"
	"pgregory.net/rapid"

	"github.com/juev/hledger-lsp/verifharness/ev"
	"github.com/juev/hledger-lsp/verifharness/gen"
	"github.com/juev/hledger-lsp/verifharness/lspx"
	m "github.com/juev/hledger-lsp/verifharness/model"
	"github.com/juev/hledger-lsp/verifharness/refclient"
)

// C16Sit is one typing situation: a line appended to the requesting buffer with the cursor after Fragment.
type C16Sit struct {
	Kind     string `json:"kind"`     // account | account-directive | payee | commodity | commodity-directive | tagname | tagvalue
	Before   string `json:"before"`   // text of the line before the fragment
	Fragment string `json:"fragment"` // what the user has typed of the name
	After    string `json:"after"`    // text after the cursor
	TagName  string `json:"tagname,omitempty"`
	Header   string `json:"header,omitempty"` // a transaction header written on the line before (posting contexts)
}

type C16Case struct {
	WS    *gen.Workspace `json:"ws"`
	Root  bool           `json:"root"`
	From  int            `json:"from"`
	Sit   C16Sit         `json:"sit"`
	Max   int            `json:"max"`
	Max2  int            `json:"max2"` // a larger limit for the prefix law
	Fuzzy bool           `json:"fuzzy"`
	Count bool           `json:"counts"`
	// Bulk > 0: the requesting buffer also declares that many accounts "bulk:c000" .. (more names than
	// any limit below 200 lets through)
	Bulk int `json:"bulk,omitempty"`
	// Trigger: when the character before the cursor is one of the server's trigger characters (: @ =),
	// the request says so, as an editor's does when that character has just been typed. What was typed
	// does not change where the cursor stands.
	Trigger bool `json:"trigger,omitempty"`
}

func c16BulkName(i int) string { return fmt.Sprintf("bulk:c%03d", i) }

type nameSet struct {
	all    map[string]bool // every name that exists (soundness)
	core   map[string]bool // names whose existence is beyond doubt (completeness)
	lo, hi map[string]int  // usage counts: certain uses / including doubtful ones
}

func newNameSet() *nameSet {
	return &nameSet{all: map[string]bool{}, core: map[string]bool{}, lo: map[string]int{}, hi: map[string]int{}}
}

type c16Names struct {
	accounts, payees, commodities, tags *nameSet
	tagValues                           map[string]*nameSet
}

func c16Collect(js []*m.Journal) *c16Names {
	n := &c16Names{accounts: newNameSet(), payees: newNameSet(), commodities: newNameSet(), tags: newNameSet(), tagValues: map[string]*nameSet{}}
	tagIn := func(c *m.Comment, core bool) {
		if c == nil {
			return
		}
		for _, kv := range c.Tags() {
			n.tags.all[kv[0]] = true
			n.tags.hi[kv[0]]++
			if n.tagValues[kv[0]] == nil {
				n.tagValues[kv[0]] = newNameSet()
			}
			n.tagValues[kv[0]].all[kv[1]] = true
			if core {
				n.tags.core[kv[0]] = true
				n.tags.lo[kv[0]]++
				if kv[1] != "" {
					n.tagValues[kv[0]].core[kv[1]] = true
				}
			}
		}
	}
	sym := func(a *m.Amount, core bool, use bool) {
		if a == nil || a.Sym == "" {
			return
		}
		n.commodities.all[a.Sym] = true
		n.commodities.hi[a.Sym]++
		if core {
			n.commodities.core[a.Sym] = true
		}
		if use {
			n.commodities.lo[a.Sym]++
		}
	}
	for _, j := range js {
		for _, e := range j.Entries {
			switch {
			case e.Dir != nil:
				d := e.Dir
				switch d.Kind {
				case "account":
					n.accounts.all[d.Account] = true
					n.accounts.core[d.Account] = true
					n.accounts.hi[d.Account]++
					tagIn(d.Comment, true)
				case "commodity", "commodity-sub":
					s := d.Sym
					if d.Fmt != nil {
						s = d.Fmt.Sym
					}
					n.commodities.all[s] = true
					n.commodities.core[s] = true
					n.commodities.hi[s]++
				case "D":
					n.commodities.all[d.Fmt.Sym] = true
					n.commodities.core[d.Fmt.Sym] = true
					n.commodities.hi[d.Fmt.Sym]++
				case "P":
					n.commodities.all[d.Sym] = true
					n.commodities.core[d.Sym] = true
					n.commodities.hi[d.Sym]++
					sym(d.Price, true, false)
				}
			case e.Tx != nil:
				t := e.Tx
				if !t.NoDesc {
					n.payees.all[t.Payee] = true
					n.payees.core[t.Payee] = true
					n.payees.lo[t.Payee]++
					n.payees.hi[t.Payee]++
				}
				tagIn(t.HC, true)
				for _, it := range t.Body {
					if it.C != nil {
						tagIn(it.C, true)
						continue
					}
					p := it.P
					n.accounts.all[p.Account] = true
					n.accounts.core[p.Account] = true
					n.accounts.lo[p.Account]++
					n.accounts.hi[p.Account]++
					sym(p.Amt, true, true)
					if p.Cost != nil {
						sym(&p.Cost.A, true, true)
					}
					if p.Assert != nil {
						sym(&p.Assert.A, true, false) // it exists; whether an assertion counts as a use is left open
					}
					tagIn(p.Comment, true)
				}
			case e.CommentLine != nil:
				// a top-level comment may or may not carry tags
				txt := *e.CommentLine
				if i := strings.Index(txt, ":"); i > 0 {
					fs := strings.Fields(txt[:i])
					if len(fs) > 0 {
						n.tags.all[fs[len(fs)-1]] = true
					}
				}
			}
		}
	}
	return n
}

func isSubseqFold(pattern, text string) bool {
	p := []rune(strings.ToLower(pattern))
	i := 0
	for _, r := range strings.ToLower(text) {
		if i < len(p) && p[i] == r {
			i++
		}
	}
	return i == len(p)
}

func hasPrefixFold(text, prefix string) bool {
	return strings.HasPrefix(strings.ToLower(text), strings.ToLower(prefix))
}

func c16Init(max int, fuzzy, counts bool) map[string]any {
	return map[string]any{"completion": map[string]any{"maxResults": max, "fuzzyMatching": fuzzy, "showCounts": counts}}
}

func (c *C16Case) buffer(disk string) (text string, line int) {
	nl := "\n"
	if strings.Contains(disk, "\r\n") {
		nl = "\r\n"
	}
	if disk != "" && !strings.HasSuffix(disk, "\n") {
		disk += nl
	}
	pre := disk + nl
	for i := 0; i < c.Bulk; i++ {
		pre += "account " + c16BulkName(i) + nl
	}
	if c.Bulk > 0 {
		pre += nl
	}
	if c.Sit.Header != "" {
		pre += c.Sit.Header + nl
	}
	line = strings.Count(pre, "\n")
	return pre + c.Sit.Before + c.Sit.Fragment + c.Sit.After + nl, line
}

func c16Ask(c *C16Case, max int) ([]protocol.CompletionItem, refclient.Pos, string, error) {
	env, err := newWSEnv(c.WS, c.Root, lspx.Options{InitOptions: c16Init(max, c.Fuzzy, c.Count)})
	if err != nil {
		return nil, refclient.Pos{}, "", err
	}
	defer env.Cleanup()
	uri := env.URIs[c.From]
	if _, err := env.H.OpenAndWait(uri, env.Disk[c.From].Text); err != nil {
		return nil, refclient.Pos{}, "", err
	}
	text, line := c.buffer(env.Disk[c.From].Text)
	_ = env.H.Change(uri, 2, []refclient.Change{{Text: text}})
	if err := env.H.Quiesce(); err != nil {
		return nil, refclient.Pos{}, "", err
	}
	pos := refclient.Pos{Line: line, Char: refclient.U16Len(c.Sit.Before + c.Sit.Fragment)}
	var res *protocol.CompletionList
	var rerr error
	if perr := lspx.Guard(func() {
		params := &protocol.CompletionParams{TextDocumentPositionParams: tdpp(uri, pos)}
		if typed := c.Sit.Before + c.Sit.Fragment; c.Trigger && typed != "" && strings.ContainsAny(typed[len(typed)-1:], ":@=") {
			params.Context = &protocol.CompletionContext{TriggerKind: protocol.CompletionTriggerKindTriggerCharacter, TriggerCharacter: typed[len(typed)-1:]}
		}
		res, rerr = env.H.S.Completion(context.Background(), params)
	}); perr != nil {
		return nil, pos, text, perr
	}
	_ = env.H.Close(uri)
	if rerr != nil || res == nil {
		return nil, pos, text, fmt.Errorf("completion failed: %v", rerr)
	}
	return res.Items, pos, text, nil
}

func c16Check(c *C16Case) (ds []ev.Discrepancy, nontrivial bool) {
	items, pos, text, err := c16Ask(c, c.Max)
	if err != nil {
		return []ev.Discrepancy{ev.D("c16.total", "%v", err)}, false
	}
	scope := c.WS.Reachable(c.From)
	if c.Root {
		seen := map[int]bool{}
		for _, i := range scope {
			seen[i] = true
		}
		for _, i := range c.WS.Reachable(0) {
			if !seen[i] {
				scope = append(scope, i)
			}
		}
	}
	var js []*m.Journal
	for _, fi := range scope {
		js = append(js, c.WS.Files[fi].Journal)
	}
	names := c16Collect(js)
	// a document beside the root journal's tree: its own tree is certain to count, the workspace's
	// names may or may not be offered to it
	island := false
	if c.Root {
		island = true
		for _, i := range c.WS.Reachable(0) {
			if i == c.From {
				island = false
			}
		}
	}
	if island {
		var own []*m.Journal
		for _, fi := range c.WS.Reachable(c.From) {
			own = append(own, c.WS.Files[fi].Journal)
		}
		certain := c16Collect(own)
		for _, pair := range [][2]*nameSet{{names.accounts, certain.accounts}, {names.payees, certain.payees}, {names.commodities, certain.commodities}, {names.tags, certain.tags}} {
			pair[0].core, pair[0].lo = pair[1].core, pair[1].lo
		}
		for k, v := range names.tagValues {
			if cv := certain.tagValues[k]; cv != nil {
				v.core = cv.core
			} else {
				v.core = map[string]bool{}
			}
		}
	}
	for i := 0; i < c.Bulk; i++ {
		names.accounts.all[c16BulkName(i)] = true
		names.accounts.core[c16BulkName(i)] = true
	}
	var ns *nameSet
	switch c.Sit.Kind {
	case "account", "account-directive":
		ns = names.accounts
	case "payee":
		ns = names.payees
	case "commodity", "commodity-directive":
		ns = names.commodities
		ns.hi["ZZZ"] = 1 << 30 // the typing line's own commodity: used once or more, wherever it ranks
	case "tagname":
		ns = names.tags
	case "tagvalue":
		ns = names.tagValues[c.Sit.TagName]
		if ns == nil {
			ns = newNameSet()
		}
	case "none":
		// the cursor stands inside something that is no name (a directive keyword, a transaction
		// code): whatever is offered there, accepting it must not overwrite what stands before the cursor
		ns = newNameSet()
	}
	f := c.Sit.Fragment
	lineText := c.Sit.Before + f + c.Sit.After
	add := func(assertion, format string, a ...any) {
		if len(ds) < 12 {
			ds = append(ds, ev.D(assertion, "%s context, line %q, cursor after %q (max %d, fuzzy %v, root %v, from %s): ", c.Sit.Kind, lineText, c.Sit.Before+f, c.Max, c.Fuzzy, c.Root, c.WS.Files[c.From].Rel)) // detail completed below
			ds[len(ds)-1].Detail += fmt.Sprintf(format, a...)
		}
	}
	_ = text
	// (bounded)
	if len(items) > c.Max {
		add("c16.bounded", "%d items returned, the configured maximum is %d", len(items), c.Max)
	}
	labels := map[string]bool{}
	var order []string
	for _, it := range items {
		labels[it.Label] = true
		order = append(order, it.Label)
	}
	// (sound)
	for _, it := range items {
		if c.Sit.Kind == "none" {
			break
		}
		if it.Label == f || (c.Sit.Kind == "payee" && it.Label == "typing") || (c.Sit.Header != "" && it.Label == "typing") || (c.Sit.Kind == "commodity" && it.Label == "ZZZ") {
			continue // what the user typed on this line exists in the document too
		}
		if !ns.all[it.Label] {
			add("c16.sound.exists", "offers %q, which is not a %s of the document or its workspace", it.Label, c.Sit.Kind)
			continue
		}
		if f == "" {
			continue
		}
		if c.Fuzzy {
			if !isSubseqFold(f, it.Label) {
				add("c16.sound.match", "offers %q, which does not contain the typed fragment %q as a subsequence", it.Label, f)
			}
		} else if !hasPrefixFold(it.Label, f) {
			add("c16.sound.match", "fuzzy matching is off: offers %q, which does not start with the typed fragment %q", it.Label, f)
		}
	}
	// (complete) every certain name that starts with the fragment, unless the list is full
	if len(items) < c.Max {
		var missing []string
		for n := range ns.core {
			if hasPrefixFold(n, f) && !labels[n] {
				missing = append(missing, n)
			}
		}
		sort.Strings(missing)
		if len(missing) > 0 {
			add("c16.complete", "does not offer %v although they start with the fragment %q and only %d of %d allowed items are returned (offered: %v)", missing, f, len(items), c.Max, order)
		}
	}
	// (ranking) nothing typed: more frequently used names first
	if f == "" {
		for i := 0; i+1 < len(order); i++ {
			a, b := order[i], order[i+1]
			if ns.hi[a] < ns.lo[b] {
				add("c16.ranking", "nothing typed: %q (used %d times) is listed before %q (used %d times)", a, ns.hi[a], b, ns.lo[b])
				break
			}
		}
	}
	// (edit) accepting an item replaces exactly the fragment
	wantStart := refclient.U16Len(c.Sit.Before)
	for _, it := range items {
		if it.TextEdit == nil {
			continue
		}
		rg := it.TextEdit.Range
		if int(rg.Start.Line) != pos.Line || int(rg.End.Line) != pos.Line || int(rg.End.Character) != pos.Char || int(rg.Start.Character) != wantStart {
			add("c16.edit", "item %q replaces %d:%d-%d:%d; the typed fragment %q spans %d:%d-%d:%d", it.Label, rg.Start.Line, rg.Start.Character, rg.End.Line, rg.End.Character, f, pos.Line, wantStart, pos.Line, pos.Char)
			break
		}
	}
	// (prefix law) a smaller maximum returns a prefix of the list for a larger one
	if c.Max2 > c.Max && len(ds) == 0 {
		items2, _, _, err2 := c16Ask(c, c.Max2)
		if err2 != nil {
			add("c16.total", "%v", err2)
		} else {
			var order2 []string
			for _, it := range items2 {
				order2 = append(order2, it.Label)
			}
			n := len(order)
			if len(order2) < n || strings.Join(order2[:n], "\x00") != strings.Join(order, "\x00") {
				add("c16.prefix-law", "with maximum %d the list is %v; with maximum %d it is %v, of which the former is not a prefix", c.Max, order, c.Max2, order2)
			}
		}
	}
	// non-trivial: a fragment that is a proper prefix/subsequence of at least one and not of all names, or nothing typed with >=2 distinct counts
	if f != "" {
		match, nomatch := 0, 0
		for n := range ns.all {
			if isSubseqFold(f, n) && n != f {
				match++
			} else {
				nomatch++
			}
		}
		nontrivial = match > 0 && nomatch > 0
	} else {
		cs := map[int]bool{}
		for n := range ns.all {
			cs[ns.lo[n]] = true
		}
		nontrivial = len(cs) >= 2
	}
	return ds, nontrivial
}

// ---- generator ----

func mixCase(t *rapid.T, s string) string {
	switch rapid.IntRange(0, 4).Draw(t, "case") {
	case 0:
		return strings.ToLower(s)
	case 1:
		return strings.ToUpper(s)
	case 2:
		var sb strings.Builder
		for i, r := range s {
			if i%2 == 0 {
				sb.WriteRune(unicode.ToUpper(r))
			} else {
				sb.WriteRune(unicode.ToLower(r))
			}
		}
		return sb.String()
	}
	return s
}

func genFragment(t *rapid.T, name string) string {
	rs := []rune(name)
	switch rapid.IntRange(0, 6).Draw(t, "fragkind") {
	case 0:
		return ""
	case 6:
		// the beginning of one segment and the colon typed after it (any segment, the last included)
		segs := strings.Split(name, ":")
		seg := []rune(strings.TrimSpace(rapid.SampledFrom(segs).Draw(t, "fragseg")))
		if len(seg) == 0 {
			return ""
		}
		return mixCase(t, strings.TrimRight(string(seg[:rapid.IntRange(1, len(seg)).Draw(t, "fragseglen")]), " ")+":")
	case 1:
		// a non-prefix subsequence
		var sb strings.Builder
		for _, r := range rs {
			if rapid.IntRange(0, 2).Draw(t, "keep") == 0 && r != ' ' {
				sb.WriteRune(r)
			}
		}
		return mixCase(t, sb.String())
	case 2:
		return mixCase(t, name)
	default:
		k := rapid.IntRange(1, len(rs)).Draw(t, "preflen")
		p := string(rs[:k])
		p = strings.TrimRight(p, " ")
		return mixCase(t, p)
	}
}

func pick(t *rapid.T, set map[string]bool, fallback string, label string) string {
	ks := keys(set)
	if len(ks) == 0 {
		return fallback
	}
	return rapid.SampledFrom(ks).Draw(t, label)
}

var c16Opts = gen.WSOpts{MinFiles: 1, MaxFiles: 3, Islands: true,
	Journal: gen.JournalOpts{MinEntries: 2, MaxEntries: 6, Directives: true, TopComments: false, Tx: gen.TxOpts{MaxPostings: 4, MaxScale: 2, MaxDigits: 4}}}

func genC16(t *rapid.T, p *gen.Profile) *C16Case {
	pools := gen.GenPools(t, p)
	ws := gen.GenWorkspace(t, p, pools, c16Opts)
	if rapid.IntRange(0, 2).Draw(t, "casevariants") == 0 {
		// an account whose parent is another account's parent in a different spelling: matching ignores
		// case in every segment, so both are children of whatever spelling is typed
		base := rapid.SampledFrom(pools.Accounts).Draw(t, "cvbase")
		if i := strings.LastIndex(base, ":"); i > 0 {
			parent := base[:i]
			variant := strings.ToUpper(parent)
			if rapid.Bool().Draw(t, "cvtitle") {
				rs := []rune(parent)
				variant = string(unicode.ToUpper(rs[0])) + string(rs[1:])
			}
			if variant != parent {
				fj := ws.Files[rapid.IntRange(0, len(ws.Files)-1).Draw(t, "cvfile")].Journal
				fj.Entries = append(fj.Entries, m.Entry{Tx: &m.Tx{Date: m.Date{Y: 2024, M: 5, D: 5, Sep: "-", Pad: true}, Payee: "spelled otherwise",
					Body: []m.BodyItem{{P: &m.Posting{Account: variant + ":other side", Amt: &m.Amount{Q: m.Num{Mant: "1"}, Sym: "EUR", SymSpace: true}, Indent: "    ", Sep: "  "}},
						{P: &m.Posting{Account: base, Indent: "    ", Sep: "  "}}}}, Blank: 1})
			}
		}
	}
	c := &C16Case{WS: ws, Root: rapid.Bool().Draw(t, "root"), Fuzzy: rapid.Bool().Draw(t, "fuzzy"), Count: rapid.Bool().Draw(t, "counts"), Trigger: rapid.Bool().Draw(t, "trigger")}
	if c.Root && rapid.IntRange(0, 3).Draw(t, "inroottree") != 0 {
		c.From = rapid.SampledFrom(ws.Reachable(0)).Draw(t, "from")
	} else {
		c.From = rapid.IntRange(0, len(ws.Files)-1).Draw(t, "from")
	}
	c.Max = rapid.SampledFrom([]int{1, 2, 3, 5, 10, 50, 200}).Draw(t, "max")
	if rapid.Bool().Draw(t, "law") {
		c.Max2 = c.Max + rapid.IntRange(1, 20).Draw(t, "max2")
	}
	var js []*m.Journal
	for _, f := range ws.Files {
		js = append(js, f.Journal)
	}
	names := c16Collect(js)
	indent := rapid.SampledFrom([]string{"    ", "    ", "\t", "        ", "  ", " ", "   "}).Draw(t, "indent")
	header := "2024-06-01 typing"
	kind := rapid.SampledFrom([]string{"account", "account", "account", "account-directive", "payee", "payee", "commodity", "commodity-directive", "tagname", "tagvalue"}).Draw(t, "kind")
	s := C16Sit{Kind: kind}
	switch kind {
	case "account":
		s.Header = header
		s.Before = indent
		if !p.Off("c16.status-before-account") && rapid.IntRange(0, 4).Draw(t, "pstatus") == 0 {
			s.Before += rapid.SampledFrom([]string{"* ", "! "}).Draw(t, "st")
		}
		if !p.Off("c16.bracket-before-account") && rapid.IntRange(0, 4).Draw(t, "virt") == 0 {
			s.Before += rapid.SampledFrom([]string{"(", "["}).Draw(t, "br")
		}
		s.Fragment = genFragment(t, pick(t, names.accounts.all, "assets:cash", "name"))
		if rapid.IntRange(0, 3).Draw(t, "after") == 0 {
			s.After = "  10 EUR"
		}
	case "account-directive":
		s.Before = "account "
		s.Fragment = genFragment(t, pick(t, names.accounts.all, "assets:cash", "name"))
	case "payee":
		s.Before = "2024-06-02 "
		if !p.Off("c16.status-before-payee") && rapid.IntRange(0, 3).Draw(t, "hstatus") == 0 {
			s.Before += rapid.SampledFrom([]string{"* ", "! "}).Draw(t, "st")
		}
		if !p.Off("c16.code-before-payee") && rapid.IntRange(0, 4).Draw(t, "hcode") == 0 {
			s.Before += "(123) "
		}
		s.Fragment = genFragment(t, pick(t, names.payees.all, "shop", "name"))
	case "commodity":
		s.Header = header
		s.Before = indent + pick(t, names.accounts.all, "assets:cash", "acct") + rapid.SampledFrom([]string{"  ", "    "}).Draw(t, "sep") + rapid.SampledFrom([]string{"10", "-5.50", "1,000.00"}).Draw(t, "num") + " "
		// the commodity of the amount, of a cost or of a balance assertion
		switch rapid.IntRange(0, 5).Draw(t, "commoditywhere") {
		case 0:
			s.Before += "ZZZ " + rapid.SampledFrom([]string{"@", "@@"}).Draw(t, "costop") + " 2 "
		case 1:
			s.Before += "ZZZ " + rapid.SampledFrom([]string{"=", "=="}).Draw(t, "assertop") + " 5 "
		case 2:
			s.Before = strings.TrimSuffix(s.Before, " ") + rapid.SampledFrom([]string{" = 5 ", "  == 0 "}).Draw(t, "assertonly") // an amount without commodity, then an assertion
		}
		// less common places where a commodity is written (each can be switched off as a known finding)
		acct := pick(t, names.accounts.all, "assets:cash", "acct2")
		leftPlace, beforeLeft := false, ""
		switch w := rapid.IntRange(0, 11).Draw(t, "commodityplace"); {
		case w == 0 && !p.Off("c16.commodity.assertion-only-posting"):
			s.Before = indent + acct + "  " + rapid.SampledFrom([]string{"= 5 ", "== 10.50 "}).Draw(t, "aop")
		case w == 1 && !p.Off("c16.commodity.number-grouped-by-blank"):
			s.Before = indent + acct + "  " + rapid.SampledFrom([]string{"1 000,00 ", "12 345 ", "1e3 ", "2.5E2 "}).Draw(t, "numform")
		case w == 2 && !p.Off("c16.commodity.tab-before-amount"):
			s.Before = indent + acct + "\t" + rapid.SampledFrom([]string{"5 ", "-10.50 "}).Draw(t, "tabnum")
		case w == 3 && !p.Off("c16.commodity.left-of-amount"):
			leftPlace, beforeLeft = true, s.Before
			s.Before = indent + acct + rapid.SampledFrom([]string{"  ", "    ", "  -"}).Draw(t, "leftsep")
		case w == 4 && !p.Off("c16.commodity.price-directive"):
			s.Header = ""
			s.Before = rapid.SampledFrom([]string{"P 2024-01-01 ", "P 2024-01-01 ZZZ 1.10 ", "P 2024/01/01 ZZZ 1,10 "}).Draw(t, "pdir")
		case w == 5 && !p.Off("c16.commodity.default-directive"):
			s.Header = ""
			s.Before = rapid.SampledFrom([]string{"D 1,000.00 ", "D 1.000,00 "}).Draw(t, "ddir")
		case w == 6 && !p.Off("c16.commodity.directive-number-first"):
			s.Header = ""
			s.Before = rapid.SampledFrom([]string{"commodity 1,000.00 ", "commodity 1.000,00 "}).Draw(t, "cdir")
		}
		s.Fragment = genFragment(t, pick(t, names.commodities.all, "EUR", "name"))
		if strings.ContainsAny(s.Fragment, " \"") {
			s.Fragment = "" // a quoted commodity is not typed letter by letter
		}
		if i := strings.IndexAny(s.Fragment, ":,0123456789"); i >= 0 {
			s.Fragment = s.Fragment[:i] // no part of a commodity's name (a name with digits is written in quotes)
		}
		s.Fragment = strings.TrimLeft(s.Fragment, ".") // a name does not begin with a point
		if leftPlace && s.Fragment == "" {
			s.Before = beforeLeft // with nothing typed after the account the place is not a commodity's yet
		}
	case "commodity-directive":
		s.Before = "commodity "
		s.Fragment = genFragment(t, pick(t, names.commodities.all, "EUR", "name"))
		if strings.ContainsAny(s.Fragment, " \"") {
			s.Fragment = ""
		}
		if i := strings.IndexAny(s.Fragment, ":,0123456789"); i >= 0 {
			s.Fragment = s.Fragment[:i]
		}
		s.Fragment = strings.TrimLeft(s.Fragment, ".")
	case "tagname":
		s.Header, s.Before = c16CommentLine(t, names, header, indent)
		if rapid.IntRange(0, 2).Draw(t, "textbeforetag") == 0 {
			s.Before += "lunch with bob " // ordinary comment text before the tag: a name is one word
		}
		s.Fragment = genFragment(t, pick(t, names.tags.all, "k", "name"))
		if strings.ContainsAny(s.Fragment, ":,") {
			s.Fragment = ""
		}
	case "tagvalue":
		tn := pick(t, names.tags.all, "k", "tname")
		s.TagName = tn
		s.Header, s.Before = c16CommentLine(t, names, header, indent)
		if rapid.IntRange(0, 2).Draw(t, "textbeforetag") == 0 {
			s.Before += "lunch with bob "
		}
		s.Before += tn + ":"
		vs := map[string]bool{}
		if names.tagValues[tn] != nil {
			for v := range names.tagValues[tn].all {
				if v != "" {
					vs[v] = true
				}
			}
		}
		s.Fragment = genFragment(t, pick(t, vs, "v", "name"))
		if strings.ContainsAny(s.Fragment, ":,") {
			s.Fragment = ""
		}
	}
	if !p.Off("c16.no-name-places") && rapid.IntRange(0, 9).Draw(t, "noname") == 0 {
		// inside a directive keyword or a transaction code
		sym := pick(t, names.commodities.all, "EUR", "nsym")
		if strings.ContainsAny(sym, " \"0123456789") {
			sym = "EUR"
		}
		acct := pick(t, names.accounts.all, "assets:cash", "nacct")
		payee := pick(t, names.payees.all, "shop", "npayee")
		type place struct{ before, after string }
		pl := rapid.SampledFrom([]place{
			{"c", "ommodity " + sym}, {"comm", "odity " + sym}, {"D", " 1,000.00 " + sym}, {"acc", "ount " + acct}, {"accoun", "t " + acct},
			{"2024-06-02 * (c", "1) " + payee}, {"2024-06-02 (", "7) " + payee}, {"2024-06-02 ! (ab", ") " + payee},
		}).Draw(t, "nplace")
		s = C16Sit{Kind: "none", Before: pl.before, After: pl.after}
	} else if !p.Off("c16.commodity.before-number") && rapid.IntRange(0, 9).Draw(t, "beforenum") == 0 {
		// the commodity on the left of a number that is already there: USD|12.50
		sym := pick(t, names.commodities.all, "EUR", "bsym")
		if !strings.ContainsAny(sym, " \".:,0123456789") {
			frag := genFragment(t, sym)
			if i := strings.IndexAny(frag, ":,.0123456789"); i >= 0 {
				frag = frag[:i]
			}
			if frag != "" {
				s = C16Sit{Kind: "commodity", Header: header, Before: indent + pick(t, names.accounts.all, "assets:cash", "bacct") + "  ", Fragment: frag, After: rapid.SampledFrom([]string{"12.50", "5", "1,000.00 = 3"}).Draw(t, "bnum")}
			}
		}
	}
	if rapid.IntRange(0, 7).Draw(t, "trigpayee") == 0 {
		// a payee whose name holds a trigger character, typed up to and including it: the request is
		// made because that character was typed, and the cursor still stands in a header
		tp := rapid.SampledFrom([]struct{ payee, typed string }{{"Amazon: books", "Amazon:"}, {"Lunch @ Mario", "Lunch @"}, {"Rent: May", "Rent:"}, {"a=b shop", "a="}}).Draw(t, "trigpayeev")
		fj := ws.Files[c.From].Journal
		fj.Entries = append(fj.Entries, m.Entry{Tx: &m.Tx{Date: m.Date{Y: 2024, M: 5, D: 6, Sep: "-", Pad: true}, Payee: tp.payee,
			Body: []m.BodyItem{{P: &m.Posting{Account: pick(t, names.accounts.all, "assets:cash", "tpacct"), Amt: &m.Amount{Q: m.Num{Mant: "1"}, Sym: "EUR", SymSpace: true}, Indent: "    ", Sep: "  "}},
				{P: &m.Posting{Account: "equity:opening", Indent: "    ", Sep: "  "}}}}, Blank: 1})
		s = C16Sit{Kind: "payee", Before: "2024-06-02 ", Fragment: tp.typed}
		c.Trigger = true
	}
	if c.Max >= 50 && !p.Off("c16.bulk") && rapid.IntRange(0, 3).Draw(t, "bulk") == 0 {
		// more existing names than most limits let through: the limit is what bounds the list, nothing else
		c.Bulk = rapid.IntRange(101, 160).Draw(t, "nbulk")
		s = C16Sit{Kind: "account", Header: header, Before: indent, Fragment: rapid.SampledFrom([]string{"bulk:c", "", "BULK:C", "bulk:c1", "bu"}).Draw(t, "bulkfrag")}
	}
	c.Sit = s
	return c
}

// c16CommentLine is the line up to and including the "; " that opens the comment the tag is typed
// in: after a posting (its account and commodity possibly non-ASCII, so that the cursor's UTF-16
// column, its code-point column and its byte offset all differ), after a transaction header, or
// on a comment line of the transaction.
func c16CommentLine(t *rapid.T, names *c16Names, header, indent string) (hdr, before string) {
	semi := rapid.SampledFrom([]string{"  ; ", "  ;", " ; ", "\t; "}).Draw(t, "semi")
	switch rapid.IntRange(0, 5).Draw(t, "commentwhere") {
	case 0:
		return header, indent + "assets:cash  5 EUR" + semi
	case 1:
		acct := rapid.SampledFrom([]string{"расходы:еда", "assets:caf\u00e9 😀", pick(t, names.accounts.all, "assets:cash", "tacct")}).Draw(t, "tagacct")
		amt := rapid.SampledFrom([]string{"5 EUR", "€5", "5 €", "50 руб @ 2 ¥", "", "1 \"🍎 X\""}).Draw(t, "tagamt")
		if amt == "" {
			return header, indent + acct + "  " + strings.TrimLeft(semi, " ")
		}
		return header, indent + acct + "  " + amt + semi
	case 2:
		payee := rapid.SampledFrom([]string{"Магазин", "Caf\u00e9 😀 bar", pick(t, names.payees.all, "shop", "tpayee")}).Draw(t, "tagpayee")
		st := rapid.SampledFrom([]string{"", "* ", "! (7) "}).Draw(t, "tagst")
		return "", "2024-06-02 " + st + payee + semi
	case 3:
		return "", "2024-06-02" + semi // a header without description
	case 4:
		return header, indent + strings.TrimLeft(semi, " \t")
	}
	return header, indent + "assets:cash" + semi
}

var recC16 = ev.New("C16")

func TestC16(t *testing.T) {
	defer recC16.Flush()
	sv := newSurvey()
	if surveyOn() {
		defer sv.print()
	}
	rapid.Check(t, func(t *rapid.T) {
		c := genC16(t, profileFor(recC16))
		ds, nt := c16Check(c)
		cls := []string{"kind:" + c.Sit.Kind, fmt.Sprintf("fuzzy:%v", c.Fuzzy), fmt.Sprintf("root:%v", c.Root), fmt.Sprintf("empty-fragment:%v", c.Sit.Fragment == ""), fmt.Sprintf("law:%v", c.Max2 > 0)}
		if strings.ContainsAny(c.Sit.Before, "*!([") && strings.HasPrefix(c.Sit.Kind, "account") {
			cls = append(cls, "status-or-bracket")
		}
		recC16.Case(nt, mustJSON(c), cls...)
		if nt && recC16.WantSample() {
			recC16.Sample(map[string]any{"situation": c.Sit, "max": c.Max, "fuzzy": c.Fuzzy, "root": c.Root})
		}
		if surveyOn() {
			sv.add(cls, ds)
			return
		}
		report(t, recC16, "c16", c, ds)
	})
}

func init() {
	replayers["c16"] = func(raw json.RawMessage) ([]ev.Discrepancy, error) {
		var c C16Case
		if err := json.Unmarshal(raw, &c); err != nil {
			return nil, err
		}
		ds, _ := c16Check(&c)
		return ds, nil
	}
}
