package checks

// C17 — semantic tokens cover their lexemes and deltas reconstruct the full result.
// Oracles: structural validity of the decoded array against the text; the
// renderer's lexeme spans for journals from G; the full result restricted to a
// range; a client model that applies delta edits.

import (
	"context"
	"encoding/json"
	"fmt"
	"strings"
	"testing"

	"go.lsp.dev/protocol"
	"pgregory.net/rapid"

	"github.com/juev/hledger-lsp/verifharness/ev"
	"github.com/juev/hledger-lsp/verifharness/gen"
	"github.com/juev/hledger-lsp/verifharness/lspx"
	m "github.com/juev/hledger-lsp/verifharness/model"
	"github.com/juev/hledger-lsp/verifharness/refclient"
)

type semTok struct {
	Line, Col, Len int
	Type, Mods     int
}

var semLegend = []string{"account", "commodity", "payee", "date", "amount", "tag", "directive", "code", "status", "comment", "string", "operator", "tagValue"}

const semNumModifiers = 2

// decodeSem decodes the relative encoding and validates it against the text.
func decodeSem(data []uint32, buf *refclient.Buffer, legendTypes, legendMods int) ([]semTok, []ev.Discrepancy) {
	var ds []ev.Discrepancy
	if len(data)%5 != 0 {
		return nil, []ev.Discrepancy{ev.D("c17.encoding.length", "data length %d is not a multiple of 5", len(data))}
	}
	var toks []semTok
	line, col := 0, 0
	for i := 0; i+4 < len(data); i += 5 {
		dl, dc := int(data[i]), int(data[i+1])
		if dl > 1<<30 || dc > 1<<30 {
			ds = append(ds, ev.D("c17.encoding.order", "token %d: delta (%d,%d) — tokens are not in document order (unsigned underflow)", i/5, data[i], data[i+1]))
			return toks, ds
		}
		if dl > 0 {
			line += dl
			col = dc
		} else {
			col += dc
		}
		t := semTok{Line: line, Col: col, Len: int(data[i+2]), Type: int(data[i+3]), Mods: int(data[i+4])}
		if len(toks) > 0 {
			p := toks[len(toks)-1]
			if t.Line == p.Line && t.Col < p.Col+p.Len {
				ds = append(ds, ev.D("c17.overlap", "token %d (%d:%d len %d) overlaps the previous one (%d:%d len %d)", i/5, t.Line, t.Col, t.Len, p.Line, p.Col, p.Len))
			}
			if t.Line == p.Line && t.Col == p.Col && dl == 0 && dc == 0 {
				ds = append(ds, ev.D("c17.order", "token %d repeats position %d:%d", i/5, t.Line, t.Col))
			}
		}
		if t.Line >= buf.LineCount() {
			ds = append(ds, ev.D("c17.inside.line", "token %d on line %d, document has %d lines", i/5, t.Line, buf.LineCount()))
		} else if t.Col+t.Len > buf.LineLen(t.Line) {
			ds = append(ds, ev.D("c17.inside.column", "token %d (%s) at %d:%d length %d runs past the end of its line (%d UTF-16 units): %q", i/5, semName(t.Type), t.Line, t.Col, t.Len, buf.LineLen(t.Line), buf.Line(t.Line)))
		} else {
			if err := buf.ValidatePos(refclient.Pos{Line: t.Line, Char: t.Col}); err != nil {
				ds = append(ds, ev.D("c17.surrogate", "token %d start: %v", i/5, err))
			}
			if err := buf.ValidatePos(refclient.Pos{Line: t.Line, Char: t.Col + t.Len}); err != nil {
				ds = append(ds, ev.D("c17.surrogate", "token %d end: %v", i/5, err))
			}
		}
		if t.Len == 0 {
			ds = append(ds, ev.D("c17.empty", "token %d (%s) at %d:%d has length 0", i/5, semName(t.Type), t.Line, t.Col))
		}
		if t.Type >= legendTypes {
			ds = append(ds, ev.D("c17.legend.type", "token %d has type %d, legend has %d types", i/5, t.Type, legendTypes))
		}
		if t.Mods >= 1<<legendMods {
			ds = append(ds, ev.D("c17.legend.modifier", "token %d has modifier bits %b, legend has %d modifiers", i/5, t.Mods, legendMods))
		}
		toks = append(toks, t)
	}
	return toks, ds
}

func semName(t int) string {
	if t >= 0 && t < len(semLegend) {
		return semLegend[t]
	}
	return fmt.Sprint(t)
}

// semKinds: which renderer span kinds a token type may cover.
var semKinds = map[string][]string{
	"account":   {"account"},
	"commodity": {"commodity", "cost.commodity", "assert.commodity", "price.commodity"},
	"payee":     {"payee", "description"},
	"date":      {"date", "date2"},
	"amount":    {"number", "cost.number", "assert.number", "price.number", "year"},
	"tag":       {"tagname"},
	"tagValue":  {"tagvalue"},
	"directive": {"keyword"},
	"code":      {"code"},
	"status":    {"status", "pstatus"},
	"comment":   {"comment", "topcomment"},
	"operator":  {"op", "pipe"},
}

func c17OnTarget(toks []semTok, r *m.Rendered, buf *refclient.Buffer) []ev.Discrepancy {
	var ds []ev.Discrepancy
	type key struct{ line, s int }
	byStart := map[key][]m.Span{}
	for _, sp := range r.Spans {
		byStart[key{sp.Line, sp.S}] = append(byStart[key{sp.Line, sp.S}], sp)
	}
	for _, t := range toks {
		name := semName(t.Type)
		kinds, checked := semKinds[name]
		if !checked || t.Line >= len(r.Lines) {
			continue
		}
		if r.LineInfo[t.Line].Kind == "subdirective" {
			continue // the text of a subdirective line is outside the lexeme table
		}
		if r.LineInfo[t.Line].Kind == "topcomment" && (name == "tag" || name == "tagValue") {
			continue // whether "k:v" in a top-level comment is a tag is not fixed by G
		}
		ok := false
		for _, sp := range byStart[key{t.Line, t.Col}] {
			for _, k := range kinds {
				if sp.Kind != k {
					continue
				}
				if sp.E-sp.S == t.Len {
					ok = true
				}
				if name == "tag" && sp.E-sp.S+1 == t.Len {
					ok = true // "name:" — the colon may belong to the tag token
				}
			}
		}
		// a format sample inside a directive is number + commodity: accept tokens inside a format span
		if !ok && (name == "amount" || name == "commodity") {
			for _, sp := range r.Spans {
				if sp.Kind == "format" && sp.Line == t.Line && t.Col >= sp.S && t.Col+t.Len <= sp.E {
					ok = true
				}
			}
		}
		if !ok {
			covered := ""
			if t.Col+t.Len <= buf.LineLen(t.Line) {
				covered = buf.Slice(refclient.Range{Start: refclient.Pos{Line: t.Line, Char: t.Col}, End: refclient.Pos{Line: t.Line, Char: t.Col + t.Len}})
			}
			ei := r.LineInfo[t.Line].Entry
			ds = append(ds, ev.Discrepancy{Assertion: "c17.lexeme." + name, Features: featList(r.EntryFeats[ei]),
				Detail: fmt.Sprintf("%s token at %d:%d length %d covers %q, which is not a %s lexeme of line %q", name, t.Line, t.Col, t.Len, covered, name, r.Lines[t.Line])})
		}
	}
	return ds
}

func semEncode(toks []semTok) []uint32 {
	var out []uint32
	pl, pc := 0, 0
	for _, t := range toks {
		dl := t.Line - pl
		dc := t.Col
		if dl == 0 {
			dc = t.Col - pc
		}
		out = append(out, uint32(dl), uint32(dc), uint32(t.Len), uint32(t.Type), uint32(t.Mods))
		pl, pc = t.Line, t.Col
	}
	return out
}

func tdi(uri string) protocol.TextDocumentIdentifier {
	return protocol.TextDocumentIdentifier{URI: protocol.DocumentURI(uri)}
}

func semFull(h *lspx.Harness, uri string) (*protocol.SemanticTokens, error) {
	var res *protocol.SemanticTokens
	var err error
	perr := lspx.Guard(func() {
		res, err = h.S.SemanticTokensFull(context.Background(), &protocol.SemanticTokensParams{TextDocument: tdi(uri)})
	})
	if perr != nil {
		return nil, perr
	}
	return res, err
}

func semRange(h *lspx.Harness, uri string, rg protocol.Range) (*protocol.SemanticTokens, error) {
	var res *protocol.SemanticTokens
	var err error
	perr := lspx.Guard(func() {
		res, err = h.S.SemanticTokensRange(context.Background(), &protocol.SemanticTokensRangeParams{TextDocument: tdi(uri), Range: rg})
	})
	if perr != nil {
		return nil, perr
	}
	return res, err
}

type C17Range struct {
	SL, SC, EL, EC int
}

type C17DocCase struct {
	Journal *m.Journal `json:"journal,omitempty"`
	Text    string     `json:"text,omitempty"` // arbitrary text when Journal is nil
	Ranges  []C17Range `json:"ranges"`
}

const c17URI = "file:///c17/doc.journal"

func c17DocCheck(c *C17DocCase) ([]ev.Discrepancy, []string) {
	text := c.Text
	var r *m.Rendered
	if c.Journal != nil {
		r = m.Render(c.Journal)
		text = r.Text
	}
	buf := refclient.New(text)
	h, err := lspx.New(lspx.Options{})
	if err != nil {
		return []ev.Discrepancy{ev.D("c17.harness", "%v", err)}, nil
	}
	_ = h.Open(c17URI, text)
	defer func() { _ = h.Close(c17URI); _ = h.Quiesce() }()
	full, err := semFull(h, c17URI)
	if err != nil || full == nil {
		return []ev.Discrepancy{ev.D("c17.total", "semanticTokens/full failed: %v", err)}, nil
	}
	toks, ds := decodeSem(full.Data, buf, len(semLegend), semNumModifiers)
	var feats []string
	if r != nil {
		feats = featList(r.Feats)
		for i := range ds {
			ds[i].Features = feats
		}
		if len(ds) == 0 {
			ds = append(ds, c17OnTarget(toks, r, buf)...)
		}
	}
	if len(ds) > 0 {
		return ds, feats
	}
	// range requests
	for _, rg := range c.Ranges {
		res, err := semRange(h, c17URI, protocol.Range{Start: protocol.Position{Line: uint32(rg.SL), Character: uint32(rg.SC)}, End: protocol.Position{Line: uint32(rg.EL), Character: uint32(rg.EC)}})
		if err != nil || res == nil {
			ds = append(ds, ev.D("c17.range.total", "range request failed: %v", err))
			continue
		}
		rt, rds := decodeSem(res.Data, buf, len(semLegend), semNumModifiers)
		ds = append(ds, rds...)
		if len(rds) > 0 {
			continue
		}
		// every returned token is a token of the full result, in order; every full
		// token that lies entirely inside the requested range is returned
		fi := 0
		for _, t := range rt {
			for fi < len(toks) && toks[fi] != t {
				fi++
			}
			if fi == len(toks) {
				ds = append(ds, ev.D("c17.range.subset", "range %v returns token %+v that the full result does not contain (or out of order)", rg, t))
				break
			}
			fi++
		}
		inRange := map[semTok]bool{}
		for _, t := range rt {
			inRange[t] = true
		}
		for _, t := range toks {
			afterStart := t.Line > rg.SL || (t.Line == rg.SL && t.Col >= rg.SC)
			beforeEnd := t.Line < rg.EL || (t.Line == rg.EL && t.Col+t.Len <= rg.EC)
			if afterStart && beforeEnd && !inRange[t] {
				ds = append(ds, ev.D("c17.range.complete", "range %v omits token %+v (%s) which lies inside it", rg, t, semName(t.Type)))
				break
			}
			// tokens on lines wholly outside the requested lines must not be returned
			if (t.Line < rg.SL || t.Line > rg.EL) && inRange[t] {
				ds = append(ds, ev.D("c17.range.restricted", "range %v returns token %+v from a line outside the range", rg, t))
				break
			}
		}
	}
	return ds, feats
}

// ---- delta histories ----

type C17Op struct {
	Op   string `json:"op"` // change | full | delta | range | close | reopen
	Doc  int    `json:"doc"`
	Text int    `json:"text,omitempty"` // index into Texts
	Prev string `json:"prev,omitempty"` // current | stale | unknown | empty
}

type C17HistCase struct {
	Texts []string `json:"texts"`
	Ops   []C17Op  `json:"ops"`
}

var c17URIs = []string{"file:///c17/h0.journal", "file:///c17/h1.journal", "file:///c17/h2.journal"}

func applySemEdits(old []uint32, edits []protocol.SemanticTokensEdit) ([]uint32, error) {
	// LSP: edits refer to the old array; several edits are applied as if in one step
	type e struct {
		s, d int
		data []uint32
	}
	var es []e
	for _, ed := range edits {
		es = append(es, e{int(ed.Start), int(ed.DeleteCount), ed.Data})
	}
	// sort descending by start so earlier offsets stay valid
	for i := 0; i < len(es); i++ {
		for j := i + 1; j < len(es); j++ {
			if es[j].s > es[i].s {
				es[i], es[j] = es[j], es[i]
			}
		}
	}
	out := append([]uint32(nil), old...)
	for _, x := range es {
		if x.s < 0 || x.s+x.d > len(out) {
			return nil, fmt.Errorf("edit start %d deleteCount %d outside the previous array of length %d", x.s, x.d, len(out))
		}
		n := append([]uint32(nil), out[:x.s]...)
		n = append(n, x.data...)
		n = append(n, out[x.s+x.d:]...)
		out = n
	}
	return out, nil
}

func u32eq(a, b []uint32) bool {
	if len(a) != len(b) {
		return false
	}
	for i := range a {
		if a[i] != b[i] {
			return false
		}
	}
	return true
}

func c17HistCheck(c *C17HistCase) ([]ev.Discrepancy, []string) {
	cls := map[string]bool{}
	h, err := lspx.New(lspx.Options{})
	if err != nil {
		return []ev.Discrepancy{ev.D("c17.harness", "%v", err)}, nil
	}
	type docState struct {
		open    bool
		text    string
		results map[string][]uint32 // every result the client received, by id
		lastID  string
		prevIDs []string
		version int
	}
	docs := make([]*docState, len(c17URIs))
	for i := range docs {
		docs[i] = &docState{results: map[string][]uint32{}}
	}
	defer func() {
		for i, d := range docs {
			if d.open {
				_ = h.Close(c17URIs[i])
			}
		}
		_ = h.Quiesce()
	}()
	var ds []ev.Discrepancy
	truth := func(d int) ([]uint32, error) {
		st := docs[d]
		if st.text == "" {
			return []uint32{}, nil
		}
		res, err := semRange(h, c17URIs[d], protocol.Range{Start: protocol.Position{}, End: protocol.Position{Line: 1 << 20, Character: 1 << 20}})
		if err != nil || res == nil {
			return nil, fmt.Errorf("range over all lines failed: %v", err)
		}
		return res.Data, nil
	}
	for si, op := range c.Ops {
		st := docs[op.Doc]
		uri := c17URIs[op.Doc]
		switch op.Op {
		case "change", "reopen":
			txt := c.Texts[op.Text%len(c.Texts)]
			if !st.open {
				_ = h.Open(uri, txt)
				st.open = true
				cls["reopen"] = true
			} else {
				st.version++
				_ = h.Change(uri, st.version+1, []refclient.Change{{Text: txt}})
			}
			st.text = txt
		case "close":
			if st.open {
				_ = h.Close(uri)
				st.open = false
				st.text = ""
			}
		case "full":
			if !st.open {
				continue
			}
			res, err := semFull(h, uri)
			if err != nil || res == nil {
				return append(ds, ev.D("c17.total", "step %d: full failed: %v", si, err)), keys(cls)
			}
			want, terr := truth(op.Doc)
			if terr != nil {
				return append(ds, ev.D("c17.total", "step %d: %v", si, terr)), keys(cls)
			}
			if !u32eq(res.Data, want) {
				ds = append(ds, ev.D("c17.full.vs-range", "step %d: full result differs from the range result over all lines for text %q", si, st.text))
			}
			// the id "received last" is the one of this answer, even when it carries none
			st.lastID = res.ResultID
			if res.ResultID != "" {
				st.results[res.ResultID] = res.Data
				st.prevIDs = append(st.prevIDs, res.ResultID)
			}
		case "delta":
			if !st.open {
				continue
			}
			prev := ""
			switch op.Prev {
			case "current":
				prev = st.lastID
			case "stale":
				if len(st.prevIDs) >= 2 {
					prev = st.prevIDs[len(st.prevIDs)-2]
				} else {
					prev = st.lastID
				}
			case "unknown":
				prev = "no-such-id-987654"
			case "empty":
				prev = ""
			case "other-doc":
				prev = docs[(op.Doc+1)%len(docs)].lastID
			}
			var res any
			var err error
			perr := lspx.Guard(func() {
				res, err = h.S.SemanticTokensFullDelta(context.Background(), &protocol.SemanticTokensDeltaParams{TextDocument: tdi(uri), PreviousResultID: prev})
			})
			if perr != nil || err != nil {
				return append(ds, ev.D("c17.total", "step %d: delta failed: %v %v", si, perr, err)), keys(cls)
			}
			want, terr := truth(op.Doc)
			if terr != nil {
				return append(ds, ev.D("c17.total", "step %d: %v", si, terr)), keys(cls)
			}
			var rebuilt []uint32
			var newID string
			switch v := res.(type) {
			case *protocol.SemanticTokens:
				rebuilt, newID = v.Data, v.ResultID
				cls["delta-answered-full"] = true
			case *protocol.SemanticTokensDelta:
				cls["delta-answered-delta"] = true
				base, ok := st.results[prev]
				if !ok {
					ds = append(ds, ev.D("c17.delta.unknown-base", "step %d: delta answer for previousResultId %q, which this client never received for this document", si, prev))
					break
				}
				var aerr error
				rebuilt, aerr = applySemEdits(base, v.Edits)
				if aerr != nil {
					ds = append(ds, ev.D("c17.delta.edit-bounds", "step %d: %v", si, aerr))
				}
				newID = v.ResultID
			case nil:
				ds = append(ds, ev.D("c17.delta.nil", "step %d: nil answer", si))
			default:
				ds = append(ds, ev.D("c17.delta.type", "step %d: answer of type %T", si, res))
			}
			if len(ds) == 0 && !u32eq(rebuilt, want) {
				ds = append(ds, ev.D("c17.delta.rebuild", "step %d: array rebuilt from the delta answer (previousResultId %q, %s) has %d entries, the full result for the current text %q has %d (or differs)", si, prev, op.Prev, len(rebuilt), st.text, len(want)))
			}
			if newID != "" {
				st.results[newID] = rebuilt
				st.prevIDs = append(st.prevIDs, newID)
				st.lastID = newID
			}
		}
		if len(ds) > 0 {
			break
		}
	}
	return ds, keys(cls)
}

// ---- generators ----

var c17Opts = gen.JournalOpts{MinEntries: 1, MaxEntries: 5, Directives: true, TopComments: true,
	Tx: gen.TxOpts{MaxPostings: 4, MaxScale: 4, MaxDigits: 7}}

func genRanges(t *rapid.T, lines int) []C17Range {
	var out []C17Range
	n := rapid.IntRange(0, 3).Draw(t, "nranges")
	for i := 0; i < n; i++ {
		a := rapid.IntRange(0, lines).Draw(t, "sl")
		b := rapid.IntRange(a, lines+1).Draw(t, "el")
		rg := C17Range{SL: a, EL: b, EC: 100000}
		if rapid.IntRange(0, 5).Draw(t, "tomax") == 0 {
			// "to the end of the document" as clients write it: the largest line or character number
			rg.EL = rapid.SampledFrom([]int{1<<31 - 1, 1<<32 - 2, 1<<32 - 1}).Draw(t, "elmax")
			rg.EC = rapid.SampledFrom([]int{0, 100000, 1<<32 - 1}).Draw(t, "ecmax")
		}
		if rapid.IntRange(0, 2).Draw(t, "mid") == 0 {
			rg.SC = rapid.IntRange(0, 30).Draw(t, "sc")
			rg.EC = rapid.IntRange(0, 60).Draw(t, "ec")
			if rg.SL == rg.EL && rg.EC < rg.SC {
				rg.EC = rg.SC
			}
		}
		out = append(out, rg)
	}
	return out
}

var soupAtoms = []string{"2024-01-15", "2024/1/5", "01-02", " ", "  ", "\t", "*", "!", "(", ")", "[", "]", "|", "@", "@@", "=", "==", ";", ":", "\"", "$", "€", "-", "+", ".", ",",
	"expenses:food", "assets:cash", "a:b", "EUR", "USD", "10.50", "1,000.00", "1 000", "5.", "1E3", "2e-2", "account ", "commodity ", "include ", "P ", "Y ", "D ", "payee ", "alias ",
	"comment\n", "end comment\n", "format ", "k:v", "tag:", "é", "Ж", "中", "😀", "𝄞", "shop", "ATM", "x", "0", "\n", "\n", "\r\n"}

func genSoup(t *rapid.T, maxAtoms int) string {
	n := rapid.IntRange(0, maxAtoms).Draw(t, "natoms")
	var sb strings.Builder
	for i := 0; i < n; i++ {
		sb.WriteString(rapid.SampledFrom(soupAtoms).Draw(t, "atom"))
	}
	return sb.String()
}

var recC17 = ev.New("C17")

func c17DocNontrivial(feats []string) bool {
	for _, f := range feats {
		switch f {
		case "tx.code", "commodity.quoted", "tx.pipe", "text.nonbmp", "posting.comment", "tx.header-comment", "comment.indented-tag":
			return true
		}
	}
	return false
}

func TestC17Doc(t *testing.T) {
	defer recC17.Flush()
	sv := newSurvey()
	if surveyOn() {
		defer sv.print()
	}
	rapid.Check(t, func(t *rapid.T) {
		p := profileFor(recC17)
		c := &C17DocCase{}
		blanked := false
		if k := rapid.IntRange(0, 5).Draw(t, "soup"); k == 0 {
			c.Text = genSoup(t, 40)
			c.Ranges = genRanges(t, strings.Count(c.Text, "\n")+1)
		} else if k == 1 {
			// a journal with some of its lines emptied (the lines stay): indented lines now follow an
			// empty line, a directive has lost its first subdirective, a transaction its header
			pools := gen.GenPools(t, p)
			lines := strings.SplitAfter(m.Render(gen.GenJournal(t, p, pools, c17Opts)).Text, "\n")
			for n := rapid.IntRange(1, 3).Draw(t, "nblank"); n > 0; n-- {
				i := rapid.IntRange(0, len(lines)-1).Draw(t, "blankline")
				lines[i] = lines[i][len(strings.TrimRight(lines[i], "\r\n")):]
			}
			c.Text = strings.Join(lines, "")
			c.Ranges = genRanges(t, len(lines)+1)
			blanked = true
		} else {
			pools := gen.GenPools(t, p)
			c.Journal = gen.GenJournal(t, p, pools, c17Opts)
			c.Ranges = genRanges(t, len(m.Render(c.Journal).Lines))
		}
		ds, feats := c17DocCheck(c)
		nt := c17DocNontrivial(feats) || (c.Journal == nil && len(c.Text) > 0)
		kind := "kind:journal"
		if c.Journal == nil {
			kind = "kind:soup"
		}
		if blanked {
			kind = "kind:journal-with-emptied-lines"
		}
		recC17.Case(nt, mustJSON(c), append(feats, kind)...)
		if nt && recC17.WantSample() {
			if c.Journal != nil {
				recC17.Sample(m.Render(c.Journal).Text)
			} else {
				recC17.Sample(c.Text)
			}
		}
		if surveyOn() {
			sv.add(feats, ds)
			return
		}
		report(t, recC17, "c17doc", c, ds)
	})
}

func TestC17Hist(t *testing.T) {
	defer recC17.Flush()
	rapid.Check(t, func(t *rapid.T) {
		p := profileFor(recC17)
		c := &C17HistCase{}
		nt := rapid.IntRange(2, 4).Draw(t, "ntexts")
		for i := 0; i < nt; i++ {
			switch rapid.IntRange(0, 4).Draw(t, "tkind") {
			case 0:
				c.Texts = append(c.Texts, genSoup(t, 25))
			case 1:
				c.Texts = append(c.Texts, "")
			default:
				pools := gen.GenPools(t, p)
				c.Texts = append(c.Texts, m.Render(gen.GenJournal(t, p, pools, gen.JournalOpts{MinEntries: 1, MaxEntries: 3, Directives: true, Tx: gen.TxOpts{MaxPostings: 3, MaxScale: 3, MaxDigits: 5}})).Text)
			}
		}
		// derived texts: the same text with its tail, head or a middle line
		// removed, so that a delta has to express pure removals and shifts
		for i := 0; i < nt; i++ {
			lines := strings.SplitAfter(c.Texts[i], "\n")
			if len(lines) < 3 {
				continue
			}
			switch rapid.IntRange(0, 6).Draw(t, "derive") {
			case 5:
				// a line emptied, the line itself kept: the tokens below keep their places while the
				// token before them is another one
				k := rapid.IntRange(0, len(lines)-1).Draw(t, "empty")
				l := lines[k]
				c.Texts = append(c.Texts, strings.Join(lines[:k], "")+l[len(strings.TrimRight(l, "\r\n")):]+strings.Join(lines[k+1:], ""))
			case 4:
				// a line (or a run of lines) written twice: what is inserted looks like its surroundings
				k := rapid.IntRange(0, len(lines)-1).Draw(t, "dup")
				n := rapid.IntRange(1, min(3, len(lines)-k)).Draw(t, "dupn")
				if !strings.HasSuffix(lines[k+n-1], "\n") {
					continue
				}
				c.Texts = append(c.Texts, strings.Join(lines[:k+n], "")+strings.Join(lines[k:], ""))
			case 0:
				k := rapid.IntRange(1, len(lines)-1).Draw(t, "keep")
				c.Texts = append(c.Texts, strings.Join(lines[:k], ""))
			case 1:
				k := rapid.IntRange(1, len(lines)-1).Draw(t, "drop")
				c.Texts = append(c.Texts, strings.Join(lines[k:], ""))
			case 2:
				k := rapid.IntRange(0, len(lines)-1).Draw(t, "cut")
				c.Texts = append(c.Texts, strings.Join(lines[:k], "")+strings.Join(lines[k+1:], ""))
			}
		}
		nbase := nt
		nt = len(c.Texts)
		ndocs := rapid.IntRange(1, 3).Draw(t, "ndocs")
		if nt > nbase && rapid.Bool().Draw(t, "directed") {
			// from a text to one derived from it (or back) with a result in hand: the delta has to express
			// exactly that removal, doubling or emptying
			a, b := rapid.IntRange(0, nbase-1).Draw(t, "dbase"), rapid.IntRange(nbase, nt-1).Draw(t, "dderived")
			if rapid.Bool().Draw(t, "dswap") {
				a, b = b, a
			}
			c.Ops = append(c.Ops, C17Op{Op: "change", Doc: 0, Text: a}, C17Op{Op: "full", Doc: 0}, C17Op{Op: "change", Doc: 0, Text: b}, C17Op{Op: "delta", Doc: 0, Prev: "current"})
		}
		steps := rapid.IntRange(3, 10).Draw(t, "steps")
		for s := 0; s < steps; s++ {
			d := rapid.IntRange(0, ndocs-1).Draw(t, "doc")
			switch rapid.IntRange(0, 9).Draw(t, "op") {
			case 0, 1, 2:
				c.Ops = append(c.Ops, C17Op{Op: "change", Doc: d, Text: rapid.IntRange(0, nt-1).Draw(t, "text")})
			case 3, 4:
				c.Ops = append(c.Ops, C17Op{Op: "full", Doc: d})
			case 5:
				c.Ops = append(c.Ops, C17Op{Op: "close", Doc: d})
			default:
				c.Ops = append(c.Ops, C17Op{Op: "delta", Doc: d, Prev: rapid.SampledFrom([]string{"current", "current", "current", "stale", "unknown", "empty", "other-doc"}).Draw(t, "prev")})
			}
		}
		ds, cls := c17HistCheck(c)
		ntv := false
		for _, k := range cls {
			if k == "delta-answered-delta" {
				ntv = true
			}
		}
		recC17.Case(ntv, mustJSON(c), append(cls, "kind:history")...)
		report(t, recC17, "c17hist", c, ds)
	})
}

func init() {
	replayers["c17doc"] = func(raw json.RawMessage) ([]ev.Discrepancy, error) {
		var c C17DocCase
		if err := json.Unmarshal(raw, &c); err != nil {
			return nil, err
		}
		ds, _ := c17DocCheck(&c)
		return ds, nil
	}
	replayers["c17hist"] = func(raw json.RawMessage) ([]ev.Discrepancy, error) {
		var c C17HistCase
		if err := json.Unmarshal(raw, &c); err != nil {
			return nil, err
		}
		ds, _ := c17HistCheck(&c)
		return ds, nil
	}
}
