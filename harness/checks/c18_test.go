package checks

// C18 — undeclared-account and undeclared-commodity warnings are exact.
// Oracle: declarations and uses known from the model over the files in scope;
// the switch law compares the diagnostics under the 8 settings combinations.

import (
	"encoding/json"
	"fmt"
	"sort"
	"strings"
	"testing"

	"go.lsp.dev/protocol"
	"pgregory.net/rapid"

	"github.com/juev/hledger-lsp/verifharness/ev"
	"github.com/juev/hledger-lsp/verifharness/gen"
	"github.com/juev/hledger-lsp/verifharness/lspx"
	m "github.com/juev/hledger-lsp/verifharness/model"
	"github.com/juev/hledger-lsp/verifharness/refclient"
)

type C18Case struct {
	WS   *gen.Workspace `json:"ws"`
	Root bool           `json:"root"`
	From int            `json:"from"`
	// Before: files opened (text as on disk) and analysed before the examined one: what the server
	// learnt from them must not count for a document they have nothing to do with
	Before []int `json:"before,omitempty"`
}

var stdCategories = map[string]bool{"assets": true, "liabilities": true, "equity": true, "expenses": true, "revenues": true, "income": true}

func declsOf(j *m.Journal) (accts, comms map[string]bool) {
	accts, comms = map[string]bool{}, map[string]bool{}
	for _, e := range j.Entries {
		if e.Dir == nil {
			continue
		}
		switch e.Dir.Kind {
		case "account":
			accts[e.Dir.Account] = true
		case "commodity", "commodity-sub":
			if e.Dir.Fmt != nil {
				comms[e.Dir.Fmt.Sym] = true
			} else {
				comms[e.Dir.Sym] = true
			}
		}
	}
	return
}

func acctCovered(a string, decl map[string]bool) bool {
	top := a
	if i := strings.Index(a, ":"); i >= 0 {
		top = a[:i]
	}
	if stdCategories[strings.ToLower(top)] {
		return true
	}
	if decl[a] {
		return true
	}
	for d := range decl {
		if strings.HasPrefix(a, d+":") {
			return true
		}
	}
	return false
}

func c18Diags(ws *gen.Workspace, root bool, from int, init map[string]any, before ...int) ([]protocol.Diagnostic, *wsEnv, error) {
	env, err := newWSEnv(ws, root, lspx.Options{InitOptions: init})
	if err != nil {
		return nil, nil, err
	}
	for _, fi := range before {
		if fi == from || fi < 0 || fi >= len(env.URIs) {
			continue
		}
		if _, err := env.H.OpenAndWait(env.URIs[fi], env.Disk[fi].Text); err != nil {
			env.Cleanup()
			return nil, nil, err
		}
	}
	d, err := env.H.OpenAndWait(env.URIs[from], env.Disk[from].Text)
	if err != nil {
		env.Cleanup()
		return nil, nil, err
	}
	return d, env, nil
}

func diagKeys(ds []protocol.Diagnostic, drop map[string]bool) []string {
	var out []string
	for _, d := range ds {
		code := fmt.Sprint(d.Code)
		if d.Code == nil {
			code = ""
		}
		if drop[code] {
			continue
		}
		out = append(out, fmt.Sprintf("%s|%s|%d:%d-%d:%d", code, d.Message, d.Range.Start.Line, d.Range.Start.Character, d.Range.End.Line, d.Range.End.Character))
	}
	sort.Strings(out)
	return out
}

func c18Check(c *C18Case) (ds []ev.Discrepancy, stats map[string]int) {
	stats = map[string]int{}
	all, env, err := c18Diags(c.WS, c.Root, c.From, nil, c.Before...)
	if err != nil {
		return []ev.Discrepancy{ev.D("c18.harness", "%v", err)}, stats
	}
	env.Cleanup()
	r := env.Disk[c.From]
	j := c.WS.Files[c.From].Journal
	buf := refclient.New(r.Text)
	// declarations in scope: the current file and its include tree, plus the workspace tree with a root
	inScope := map[int]bool{}
	for _, fi := range c.WS.Reachable(c.From) {
		inScope[fi] = true
	}
	if c.Root {
		for _, fi := range c.WS.Reachable(0) {
			inScope[fi] = true
		}
	}
	dAcct, dComm := map[string]bool{}, map[string]bool{}
	outside := false
	for fi := range inScope {
		a, cm := declsOf(c.WS.Files[fi].Journal)
		for k := range a {
			dAcct[k] = true
		}
		for k := range cm {
			dComm[k] = true
		}
		if fi != c.From && (len(a) > 0 || len(cm) > 0) {
			outside = true
		}
	}
	feats := featList(r.Feats)
	add := func(assertion, format string, a ...any) {
		if len(ds) < 30 {
			ds = append(ds, ev.Discrepancy{Assertion: assertion, Features: feats,
				Detail: fmt.Sprintf("%s (root=%v, declared accounts %v, declared commodities %v): ", c.WS.Files[c.From].Rel, c.Root, keys(dAcct), keys(dComm)) + fmt.Sprintf(format, a...)})
		}
	}
	// expected
	wantAcct := map[int]string{} // line -> account
	type txSym struct {
		entry int
		sym   string
	}
	wantComm := map[txSym]bool{}
	for ei, e := range j.Entries {
		if e.Tx == nil {
			continue
		}
		pi := 0
		line := r.EntryLine[ei]
		for _, it := range e.Tx.Body {
			line++
			if it.P == nil {
				continue
			}
			p := it.P
			if len(dAcct) > 0 && !acctCovered(p.Account, dAcct) {
				wantAcct[line] = p.Account
			}
			if len(dComm) > 0 {
				use := func(a *m.Amount) {
					if a != nil && a.Sym != "" && !dComm[a.Sym] {
						wantComm[txSym{ei, a.Sym}] = true
					}
				}
				use(p.Amt)
				if p.Cost != nil {
					use(&p.Cost.A)
				}
				if p.Assert != nil {
					use(&p.Assert.A)
				}
			}
			pi++
		}
	}
	stats["expected_warnings"] = len(wantAcct) + len(wantComm)
	if outside {
		stats["declaration_outside_current_file"] = 1
	}
	gotAcct := map[int]int{}
	gotComm := map[txSym]int{}
	for _, d := range all {
		line := int(d.Range.Start.Line)
		switch d.Code {
		case "UNDECLARED_ACCOUNT":
			gotAcct[line]++
			if _, ok := wantAcct[line]; !ok {
				ln := ""
				if line < len(r.Lines) {
					ln = r.Lines[line]
				}
				add("c18.account.spurious", "UNDECLARED_ACCOUNT %q on line %d %q, whose account is covered by a declaration or a standard category", d.Message, line, ln)
			} else if !strings.Contains(d.Message, wantAcct[line]) {
				add("c18.account.message", "UNDECLARED_ACCOUNT on line %d says %q, the account is %q", line, d.Message, wantAcct[line])
			}
		case "UNDECLARED_COMMODITY":
			if line >= len(r.LineInfo) {
				add("c18.commodity.range", "UNDECLARED_COMMODITY on line %d outside the document", line)
				continue
			}
			ei := r.LineInfo[line].Entry
			sym := stripQuotes(buf.Slice(protoToRef(d.Range)))
			gotComm[txSym{ei, sym}]++
			if !wantComm[txSym{ei, sym}] {
				add("c18.commodity.spurious", "UNDECLARED_COMMODITY %q for %q on line %d %q: not an undeclared commodity of that transaction", d.Message, sym, line, r.Lines[line])
			}
		}
	}
	for line, a := range wantAcct {
		if gotAcct[line] != 1 {
			add("c18.account.missing", "posting on line %d %q uses undeclared account %q: %d warnings, expected exactly one", line, r.Lines[line], a, gotAcct[line])
		}
	}
	for k := range wantComm {
		if gotComm[k] != 1 {
			add("c18.commodity.count", "transaction at line %d uses undeclared commodity %q: %d warnings, expected exactly one", r.EntryLine[k.entry], k.sym, gotComm[k])
		}
	}
	if len(ds) > 0 {
		return ds, stats
	}
	// ---- switch law
	kinds := []struct {
		key   string
		codes map[string]bool
	}{
		{"undeclaredAccounts", map[string]bool{"UNDECLARED_ACCOUNT": true}},
		{"undeclaredCommodities", map[string]bool{"UNDECLARED_COMMODITY": true}},
		{"unbalancedTransactions", map[string]bool{"UNBALANCED": true, "MULTIPLE_INFERRED": true}},
	}
	for mask := 1; mask < 8; mask++ {
		diag := map[string]any{}
		drop := map[string]bool{}
		for i, k := range kinds {
			off := mask&(1<<i) != 0
			diag[k.key] = !off
			if off {
				for code := range k.codes {
					drop[code] = true
				}
			}
		}
		var init map[string]any
		switch mask % 3 { // three encodings of the same payload
		case 0:
			init = map[string]any{"diagnostics": diag}
		case 1:
			init = map[string]any{"hledger": map[string]any{"diagnostics": diag}}
		default:
			init = map[string]any{}
			for k, v := range diag {
				init["diagnostics."+k] = v
			}
		}
		got, env2, err := c18Diags(c.WS, c.Root, c.From, init, c.Before...)
		if err != nil {
			return append(ds, ev.D("c18.harness", "%v", err)), stats
		}
		env2.Cleanup()
		want := diagKeys(all, drop)
		have := diagKeys(got, nil)
		if strings.Join(want, "\n") != strings.Join(have, "\n") {
			add("c18.switch", "with settings %v the diagnostics are %v; all-on minus the switched-off kinds gives %v", diag, have, want)
		}
		stats["switch_combinations"]++
	}
	return ds, stats
}

var c18Opts = gen.WSOpts{MinFiles: 1, MaxFiles: 3, Islands: true,
	Journal: gen.JournalOpts{MinEntries: 1, MaxEntries: 5, Directives: true, TopComments: false, Tx: gen.TxOpts{MaxPostings: 4, MaxScale: 2, MaxDigits: 4}}}

var recC18 = ev.New("C18")

func TestC18(t *testing.T) {
	defer recC18.Flush()
	sv := newSurvey()
	if surveyOn() {
		defer sv.print()
	}
	rapid.Check(t, func(t *rapid.T) {
		p := &gen.Profile{Off: func(f string) bool { return disabled(f) }, Excluded: recC18.Excluded}
		pools := gen.GenPools(t, p)
		// account classes: children and near-miss siblings of pool accounts
		base := append([]string{}, pools.Accounts...)
		for i, a := range base {
			if i < 2 {
				pools.Accounts = append(pools.Accounts, a+":child", a+"x")
			}
		}
		ws := gen.GenWorkspace(t, p, pools, c18Opts)
		c := &C18Case{WS: ws, Root: rapid.Bool().Draw(t, "root"), From: rapid.IntRange(0, len(ws.Files)-1).Draw(t, "from")}
		if len(ws.Files) > 1 && rapid.Bool().Draw(t, "openbefore") {
			for fi := range ws.Files {
				if rapid.Bool().Draw(t, "before") {
					c.Before = append(c.Before, fi)
				}
			}
		}
		// the layout where the three sources of declarations differ most: a current file beside the
		// root journal's tree that has an include tree of its own
		underRoot := map[int]bool{}
		for _, fi := range ws.Reachable(0) {
			underRoot[fi] = true
		}
		var beside []int
		for fi := range ws.Files {
			if !underRoot[fi] && len(ws.Reachable(fi)) > 1 {
				beside = append(beside, fi)
			}
		}
		if len(beside) > 0 && rapid.Bool().Draw(t, "frombeside") {
			c.From = rapid.SampledFrom(beside).Draw(t, "besidefile")
		}
		if len(ws.Files) == 3 && rapid.IntRange(0, 3).Draw(t, "unrelated") == 0 {
			// three files that have nothing to do with each other, the first the workspace's root journal:
			// one of the other two is analysed, then the other one examined. What the first declares is
			// no business of the second.
			for fi := range ws.Files {
				var es []m.Entry
				for _, e := range ws.Files[fi].Journal.Entries {
					if e.Dir == nil || e.Dir.Kind != "include" {
						es = append(es, e)
					}
				}
				ws.Files[fi].Journal.Entries = es
				ws.Includes[fi] = nil
			}
			c.Root = true
			c.From = rapid.IntRange(1, 2).Draw(t, "unrelatedfrom")
			c.Before = []int{3 - c.From}
			underRoot = map[int]bool{0: true}
		}
		ds, st := c18Check(c)
		nt := st["expected_warnings"] > 0 && st["declaration_outside_current_file"] > 0
		cls := []string{fmt.Sprintf("root:%v", c.Root), fmt.Sprintf("files:%d", len(ws.Files)), fmt.Sprintf("current-beside-root-with-own-tree:%v", !underRoot[c.From] && len(ws.Reachable(c.From)) > 1), fmt.Sprintf("other-documents-analysed-before:%v", len(c.Before) > 0)}
		if st["expected_warnings"] > 0 {
			cls = append(cls, "has-expected-warnings")
		}
		recC18.Case(nt, mustJSON(c), cls...)
		for k, v := range st {
			recC18.Count(k, int64(v))
		}
		if nt && recC18.WantSample() {
			var sb strings.Builder
			for _, f := range ws.Files {
				sb.WriteString("== " + f.Rel + "\n" + m.Render(f.Journal).Text)
			}
			recC18.Sample(map[string]any{"root": c.Root, "from": ws.Files[c.From].Rel, "files": sb.String()})
		}
		if surveyOn() {
			sv.add(append(featList(m.Render(ws.Files[c.From].Journal).Feats), cls...), ds)
			return
		}
		report(t, recC18, "c18", c, ds)
	})
}

func init() {
	replayers["c18"] = func(raw json.RawMessage) ([]ev.Discrepancy, error) {
		var c C18Case
		if err := json.Unmarshal(raw, &c); err != nil {
			return nil, err
		}
		ds, _ := c18Check(&c)
		return ds, nil
	}
}
