package checks

// C19 — configuration is total, validated and effective.
// Oracles: (total) no error or panic for any JSON payload and the server keeps
// answering; (effect) a reference interpreter of docs/configuration.md folds
// structured payloads into expected settings, and a probe workspace measures
// behaviour (never internals) after every configuration event.

import (
	"context"
	"encoding/json"
	"fmt"
	"os"
	"path/filepath"
	"strconv"
	"strings"
	"testing"

	"go.lsp.dev/protocol"
	"pgregory.net/rapid"

	"github.com/juev/hledger-lsp/verifharness/ev"
	"github.com/juev/hledger-lsp/verifharness/lspx"
	"github.com/juev/hledger-lsp/verifharness/refclient"
)

// ---------- arbitrary JSON (totality) ----------

var c19Keys = []string{"hledger", "features", "completion", "diagnostics", "formatting", "cli", "limits",
	"hover", "completion", "formatting", "diagnostics", "semanticTokens", "codeActions", "foldingRanges", "documentLinks", "workspaceSymbol", "inlineCompletion",
	"maxResults", "fuzzyMatching", "showCounts", "undeclaredAccounts", "undeclaredCommodities", "unbalancedTransactions",
	"indentSize", "alignAmounts", "minAlignmentColumn", "enabled", "timeout", "maxFileSizeBytes", "maxFileSize", "maxIncludeDepth",
	"completion.maxResults", "formatting.indentSize", "formatting.minAlignmentColumn", "features.diagnostics", "limits.maxIncludeDepth", "limits.maxFileSizeBytes",
	"diagnostics.undeclaredAccounts", "completion.fuzzyMatching", "junk", "", "Hledger", "FEATURES"}

var c19Sections = map[string][]string{
	"features":    {"hover", "completion", "formatting", "diagnostics", "semanticTokens", "codeActions", "foldingRanges", "documentLinks", "workspaceSymbol", "inlineCompletion"},
	"completion":  {"maxResults", "fuzzyMatching", "showCounts"},
	"diagnostics": {"undeclaredAccounts", "undeclaredCommodities", "unbalancedTransactions"},
	"formatting":  {"indentSize", "alignAmounts", "minAlignmentColumn"},
	"limits":      {"maxFileSizeBytes", "maxFileSize", "maxIncludeDepth"},
}

func genJSON(t *rapid.T, depth int) any {
	k := rapid.IntRange(0, 9).Draw(t, "jkind")
	if depth <= 0 && k >= 7 {
		k = rapid.IntRange(0, 6).Draw(t, "jleaf")
	}
	switch k {
	case 0:
		return nil
	case 1:
		return rapid.Bool().Draw(t, "jbool")
	case 2:
		return float64(rapid.IntRange(-5, 300).Draw(t, "jint"))
	case 3:
		return rapid.SampledFrom([]float64{0, -1, 1, 2.5, -0.5, 1e15, 9e15, -9e15, 1e18, 1e19, 1e300, -1e300, 3e9, 2147483648, 4294967296, 0.0001}).Draw(t, "jnum")
	case 4:
		return rapid.SampledFrom([]string{"", "true", "false", " False ", "TRUE", "1", "0", "-3", " 12 ", "12.0", "1e3", "abc", "9999999999999999999999", "null", "{}", "hledger"}).Draw(t, "jstr")
	case 5:
		return rapid.StringN(0, 8, -1).Draw(t, "jfree")
	case 6:
		return float64(rapid.IntRange(1, 64).Draw(t, "jsmall"))
	case 7:
		n := rapid.IntRange(0, 3).Draw(t, "jalen")
		arr := make([]any, 0, n)
		for i := 0; i < n; i++ {
			arr = append(arr, genJSON(t, depth-1))
		}
		return arr
	case 8:
		// a payload shaped like the documented one, with arbitrary leaves
		obj := map[string]any{}
		for sec, names := range c19Sections {
			if rapid.IntRange(0, 2).Draw(t, "jsec"+sec) != 0 {
				continue
			}
			sub := map[string]any{}
			for _, nm := range names {
				if rapid.IntRange(0, 1).Draw(t, "jset"+nm) == 0 {
					sub[nm] = genJSON(t, 0)
				}
			}
			if rapid.IntRange(0, 3).Draw(t, "jdot"+sec) == 0 {
				for k, v := range sub {
					obj[sec+"."+k] = v
				}
			} else {
				obj[sec] = sub
			}
		}
		if rapid.Bool().Draw(t, "jwrap") {
			return map[string]any{"hledger": obj}
		}
		return obj
	default:
		n := rapid.IntRange(0, 5).Draw(t, "jolen")
		obj := map[string]any{}
		for i := 0; i < n; i++ {
			key := rapid.SampledFrom(c19Keys).Draw(t, "jkey")
			if key == "cli" || strings.HasPrefix(key, "cli.") || key == "path" {
				continue // the server executes cli.path: never generated from free values
			}
			obj[key] = genJSON(t, depth-1)
		}
		return obj
	}
}

type C19TotalCase struct {
	Init    json.RawMessage   `json:"init"`
	Changes []json.RawMessage `json:"changes"`
}

const c19ProbeText = "account assets:cash\ncommodity 1000.00 EUR\n\n2024-01-01 shop\n    expenses:food  5 USD\n    assets:cash  -4 USD\n"

func c19TotalCheck(c *C19TotalCase) []ev.Discrepancy {
	var ds []ev.Discrepancy
	var init any
	_ = json.Unmarshal(c.Init, &init)
	var h *lspx.Harness
	var err error
	if perr := lspx.Guard(func() { h, err = lspx.New(lspx.Options{InitOptions: init, SupportsConfiguration: true}) }); perr != nil || err != nil {
		return []ev.Discrepancy{ev.D("c19.total.initialize", "initialize with options %s failed: %v %v", c.Init, perr, err)}
	}
	uri := "file:///c19/total.journal"
	probe := func(stage string) {
		perr := lspx.Guard(func() {
			_ = h.Open(uri, c19ProbeText)
			if qerr := h.Quiesce(); qerr != nil {
				ds = append(ds, ev.D("c19.total.hang", "%s: %v", stage, qerr))
			}
			ctx := context.Background()
			if _, e := h.S.Format(ctx, &protocol.DocumentFormattingParams{TextDocument: tdi(uri)}); e != nil {
				ds = append(ds, ev.D("c19.total.answer", "%s: formatting returns %v", stage, e))
			}
			if _, e := h.S.Completion(ctx, &protocol.CompletionParams{TextDocumentPositionParams: tdpp(uri, refclient.Pos{Line: 4, Char: 6})}); e != nil {
				ds = append(ds, ev.D("c19.total.answer", "%s: completion returns %v", stage, e))
			}
			if _, e := h.S.Hover(ctx, &protocol.HoverParams{TextDocumentPositionParams: tdpp(uri, refclient.Pos{Line: 4, Char: 6})}); e != nil {
				ds = append(ds, ev.D("c19.total.answer", "%s: hover returns %v", stage, e))
			}
			_ = h.Close(uri)
		})
		if perr != nil {
			ds = append(ds, ev.D("c19.total.panic", "%s: the server no longer answers: %v", stage, perr))
		}
	}
	probe("after initialize with " + string(c.Init))
	for i, raw := range c.Changes {
		if len(ds) > 0 {
			break
		}
		var v any
		_ = json.Unmarshal(raw, &v)
		h.C.SetConfig(v)
		var cerr error
		if perr := lspx.Guard(func() { cerr = h.ChangeConfiguration(); _ = h.Quiesce() }); perr != nil || cerr != nil {
			ds = append(ds, ev.D("c19.total.change", "configuration change %d with %s failed: %v %v", i, raw, perr, cerr))
			break
		}
		probe(fmt.Sprintf("after configuration change %d with %s", i, raw))
	}
	return ds
}

// ---------- structured payloads (effect) ----------

type C19Entry struct {
	Setting string `json:"setting"` // e.g. completion.maxResults
	Class   string `json:"class"`   // well | nonpositive | illtyped | absent
	Value   any    `json:"value"`   // as sent
	Form    string `json:"form"`    // nested | dotted
}

type C19Event struct {
	Wrapped bool       `json:"wrapped"` // inside {"hledger": ...}
	Entries []C19Entry `json:"entries"`
	// Junk (not wrapped only): an ill-typed entry "hledger" beside the settings: "null" | "string" | "number" | "bool" | "array"
	Junk string `json:"junk,omitempty"`
}

type C19EffectCase struct {
	Events []C19Event `json:"events"`         // event 0 = initializationOptions, others = didChangeConfiguration
	Root   bool       `json:"root,omitempty"` // the probe directory is the workspace folder (root journal main.journal)
	Push   bool       `json:"push,omitempty"` // the client has no workspace/configuration capability: settings arrive inside didChangeConfiguration
}

type c19Settings struct {
	MaxResults                         int
	Fuzzy, Counts                      bool
	Indent                             int
	Align                              bool
	MinCol                             int
	UndAcct, UndComm, Unbalanced       bool
	FeatDiagnostics, FeatInline        bool
	MaxDepth                           int
	MaxSize                            int64
	FeatHover, FeatCompletion, FeatFmt bool
	FeatFolding, FeatLinks, FeatWSSym  bool
	FeatSemantic                       bool
}

func c19Defaults() c19Settings {
	return c19Settings{MaxResults: 50, Fuzzy: true, Counts: true, Indent: 4, Align: true, MinCol: 0, UndAcct: true, UndComm: true, Unbalanced: true,
		FeatDiagnostics: true, FeatInline: true, MaxDepth: 50, MaxSize: 10485760, FeatHover: true, FeatCompletion: true, FeatFmt: true, FeatFolding: true, FeatLinks: true, FeatWSSym: true, FeatSemantic: true}
}

var c19IntSettings = map[string]int{"completion.maxResults": 50, "formatting.indentSize": 4, "formatting.minAlignmentColumn": 0, "limits.maxIncludeDepth": 50, "limits.maxFileSizeBytes": 10485760}
var c19BoolSettings = []string{"completion.fuzzyMatching", "completion.showCounts", "formatting.alignAmounts", "diagnostics.undeclaredAccounts", "diagnostics.undeclaredCommodities",
	"diagnostics.unbalancedTransactions", "features.diagnostics", "features.inlineCompletion", "features.hover", "features.completion", "features.formatting", "features.foldingRanges",
	"features.documentLinks", "features.workspaceSymbol", "features.semanticTokens"}

func (s *c19Settings) intPtr(name string) *int {
	switch name {
	case "completion.maxResults":
		return &s.MaxResults
	case "formatting.indentSize":
		return &s.Indent
	case "formatting.minAlignmentColumn":
		return &s.MinCol
	case "limits.maxIncludeDepth":
		return &s.MaxDepth
	}
	return nil
}

func (s *c19Settings) boolPtr(name string) *bool {
	switch name {
	case "completion.fuzzyMatching":
		return &s.Fuzzy
	case "completion.showCounts":
		return &s.Counts
	case "formatting.alignAmounts":
		return &s.Align
	case "diagnostics.undeclaredAccounts":
		return &s.UndAcct
	case "diagnostics.undeclaredCommodities":
		return &s.UndComm
	case "diagnostics.unbalancedTransactions":
		return &s.Unbalanced
	case "features.diagnostics":
		return &s.FeatDiagnostics
	case "features.inlineCompletion":
		return &s.FeatInline
	case "features.hover":
		return &s.FeatHover
	case "features.completion":
		return &s.FeatCompletion
	case "features.formatting":
		return &s.FeatFmt
	case "features.foldingRanges":
		return &s.FeatFolding
	case "features.documentLinks":
		return &s.FeatLinks
	case "features.workspaceSymbol":
		return &s.FeatWSSym
	case "features.semanticTokens":
		return &s.FeatSemantic
	}
	return nil
}

// apply is the reference interpreter: well-typed -> new value; non-positive
// number -> default; ill-typed, unknown, absent -> previous value.
func (s *c19Settings) apply(ev C19Event, intVal func(e C19Entry) int, boolVal func(e C19Entry) bool) {
	for _, e := range ev.Entries {
		switch e.Class {
		case "well":
			if p := s.intPtr(e.Setting); p != nil {
				*p = intVal(e)
			} else if e.Setting == "limits.maxFileSizeBytes" {
				s.MaxSize = int64(intVal(e))
			} else if p := s.boolPtr(e.Setting); p != nil {
				*p = boolVal(e)
			}
		case "nonpositive":
			if p := s.intPtr(e.Setting); p != nil {
				*p = c19IntSettings[e.Setting]
			} else if e.Setting == "limits.maxFileSizeBytes" {
				s.MaxSize = 10485760
			}
		}
	}
}

func (e C19Event) payload() any {
	root := map[string]any{}
	for _, en := range e.Entries {
		if en.Class == "absent" {
			continue
		}
		parts := strings.SplitN(en.Setting, ".", 2)
		if en.Form == "dotted" {
			root[en.Setting] = en.Value
			continue
		}
		sec, _ := root[parts[0]].(map[string]any)
		if sec == nil {
			sec = map[string]any{}
			root[parts[0]] = sec
		}
		sec[parts[1]] = en.Value
	}
	if e.Wrapped {
		return map[string]any{"hledger": root}
	}
	switch e.Junk {
	case "null":
		root["hledger"] = nil
	case "string":
		root["hledger"] = "x"
	case "number":
		root["hledger"] = float64(0)
	case "bool":
		root["hledger"] = true
	case "array":
		root["hledger"] = []any{}
	}
	return root
}

// the value a well-typed entry means
func c19IntOf(e C19Entry) int {
	switch v := e.Value.(type) {
	case float64:
		if v >= 1e15 {
			return 1 << 40 // a number beyond every practical bound: "as much as there is"
		}
		return int(v)
	case int:
		return v
	case string:
		n, _ := strconv.Atoi(strings.TrimSpace(v)) // decimal, whatever it starts with
		return n
	}
	return 0
}

func c19BoolOf(e C19Entry) bool {
	switch v := e.Value.(type) {
	case bool:
		return v
	case string:
		return strings.EqualFold(strings.TrimSpace(v), "true")
	}
	return false
}

// ---- probe workspace ----

type c19Probe struct {
	dir                     string
	h                       *lspx.Harness
	uri                     string
	fmtURI                  string
	incURI                  string
	incOpenURI, sizeOpenURI string
	mainURI                 string
	root                    bool
	sizeURI                 string
	version                 int
	nAccounts               int
	bigSize                 int
}

func c19Accounts(n int) string {
	var sb strings.Builder
	for i := 0; i < n; i++ {
		fmt.Fprintf(&sb, "account acc:n%02d\n", i)
	}
	return sb.String()
}

const c19FmtText = "2024-01-01 shop\n  short:a  1 EUR\n  much:longer:account:name  -1 EUR\n"
const c19DiagText = "account known:acct\ncommodity 1000.00 EUR\n\n2024-01-01 shop\n    known:acct  5 EUR\n    unknown:acct  -4 XYZ\n"
const c19InlineText = "2024-01-01 shop\n    expenses:food  5 EUR\n    assets:cash\n\n2024-02-01 shop\n\n"

func newC19Probe(init any, root, push bool) (*c19Probe, error) {
	wsSeq++
	dir := filepath.Join(scratch(), fmt.Sprintf("c19-%d", wsSeq))
	_ = os.MkdirAll(dir, 0o755)
	p := &c19Probe{dir: dir, nAccounts: 60}
	w := func(name, txt string) string {
		path := filepath.Join(dir, name)
		_ = os.WriteFile(path, []byte(txt), 0o644)
		return "file://" + path
	}
	// include chain of depth 4: chain0 -> l1 -> l2 -> l3 (deep:only lives in l3)
	p.incURI = w("chain0.journal", "include l1.journal\n")
	w("l1.journal", "include l2.journal\n")
	w("l2.journal", "include l3.journal\n")
	w("l3.journal", "account deep:only\n")
	// a 300-byte include
	big := "account big:only\n; " + strings.Repeat("x", 300) + "\n"
	p.bigSize = len(big)
	w("big.journal", big)
	p.sizeURI = w("size0.journal", "include big.journal\n")
	p.uri = "file://" + filepath.Join(dir, "probe.journal")
	p.fmtURI = "file://" + filepath.Join(dir, "fmt.journal")
	p.mainURI = w("main.journal", "include chain0.journal\ninclude size0.journal\naccount \n")
	popts := lspx.Options{InitOptions: init, SupportsConfiguration: !push}
	if root {
		popts.RootDir = dir
	}
	p.root = root
	h, err := lspx.New(popts)
	if err != nil {
		return nil, err
	}
	p.h = h
	// two documents that stay open, unchanged, across all configuration changes: a new
	// limit must reach requests on them too ("take effect on subsequent behaviour")
	p.incOpenURI = "file://" + filepath.Join(dir, "chain-open.journal")
	p.sizeOpenURI = "file://" + filepath.Join(dir, "size-open.journal")
	if _, err := h.OpenAndWait(p.incOpenURI, "include l1.journal\naccount \n"); err != nil {
		return nil, err
	}
	if _, err := h.OpenAndWait(p.sizeOpenURI, "include big.journal\naccount \n"); err != nil {
		return nil, err
	}
	if root {
		// the root journal of the workspace stays open too: its answers come from the workspace's tree
		if _, err := h.OpenAndWait(p.mainURI, "include chain0.journal\ninclude size0.journal\naccount \n"); err != nil {
			return nil, err
		}
	}
	return p, nil
}

func (p *c19Probe) cleanup() { _ = p.h.Quiesce(); os.RemoveAll(p.dir) }

// reopen replaces a document's content so that nothing computed under older settings is reused.
func (p *c19Probe) fresh(uri, text string) ([]protocol.Diagnostic, error) {
	p.version++
	_ = p.h.Close(uri)
	txt := text + fmt.Sprintf("; v%d\n", p.version)
	d, err := p.h.OpenAndWait(uri, txt)
	return d, err
}

func (p *c19Probe) labels(uri, text string, line, ch int) ([]protocol.CompletionItem, error) {
	if _, err := p.fresh(uri, text); err != nil {
		return nil, err
	}
	res, err := p.h.S.Completion(context.Background(), &protocol.CompletionParams{TextDocumentPositionParams: tdpp(uri, refclient.Pos{Line: line, Char: ch})})
	if err != nil || res == nil {
		return nil, fmt.Errorf("completion: %v", err)
	}
	return res.Items, nil
}

func hasLabel(items []protocol.CompletionItem, l string) bool {
	for _, it := range items {
		if it.Label == l {
			return true
		}
	}
	return false
}

// measure compares behaviour with the expected settings.
func (p *c19Probe) measure(want c19Settings, stage string) []ev.Discrepancy {
	var ds []ev.Discrepancy
	add := func(assertion, format string, a ...any) {
		ds = append(ds, ev.D(assertion, stage+": "+fmt.Sprintf(format, a...)))
	}
	perr := lspx.Guard(func() {
		ctx := context.Background()
		// two questions on documents that were open before the change and were not touched; asked
		// first (nothing else has happened since the change) and again at the end (so that the
		// tree the server may cache is the one resolved under these settings, with nothing after it)
		openDocs := func(when string) {
			for _, q := range []struct {
				uri, label, what string
				exp              bool
			}{
				{p.incOpenURI, "deep:only", "maxIncludeDepth", want.MaxDepth >= 4},
				{p.sizeOpenURI, "big:only", "maxFileSizeBytes", want.MaxSize >= int64(p.bigSize) && want.MaxDepth >= 2},
				// through the workspace's tree (one level deeper: main -> chain0 -> ...)
				{p.mainURI, "deep:only", "maxIncludeDepth.workspace", want.MaxDepth >= 5},
				{p.mainURI, "big:only", "maxFileSizeBytes.workspace", want.MaxSize >= int64(p.bigSize) && want.MaxDepth >= 3},
			} {
				if q.uri == p.mainURI && !p.root {
					continue
				}
				line := 1
				if q.uri == p.mainURI {
					line = 2
				}
				res, err := p.h.S.Completion(ctx, &protocol.CompletionParams{TextDocumentPositionParams: tdpp(q.uri, refclient.Pos{Line: line, Char: 8})})
				if err != nil || res == nil {
					add("c19.probe", "completion on an open document: %v", err)
					return
				}
				if got := hasLabel(res.Items, q.label); got != q.exp && want.MaxResults >= 5 {
					add("c19.effect."+q.what+".open-document", "on a document that stayed open and unchanged across the configuration change (%s), %q offered=%v, expected %v (maxIncludeDepth=%d, maxFileSizeBytes=%d)", when, q.label, got, q.exp, want.MaxDepth, want.MaxSize)
				}
			}
		}
		openDocs("first request after the change")
		// completion limit / counts: 60 declared accounts, cursor on an empty posting account
		doc := c19Accounts(p.nAccounts) + "\n2024-01-01 x\n    acc:n00  1 EUR\n    \n"
		items, err := p.labels(p.uri, doc, p.nAccounts+3, 4)
		if err != nil {
			add("c19.probe", "%v", err)
			return
		}
		wantN := want.MaxResults
		if wantN > p.nAccounts {
			wantN = p.nAccounts
		}
		if len(items) != wantN {
			add("c19.effect.maxResults", "completion returns %d items, expected min(maxResults=%d, %d candidates)", len(items), want.MaxResults, p.nAccounts)
		}
		withCount := false
		for _, it := range items {
			if strings.Contains(it.Detail, "(") {
				withCount = true
			}
		}
		if hasLabel(items, "acc:n00") && withCount != want.Counts {
			add("c19.effect.showCounts", "usage counts shown=%v, expected showCounts=%v", withCount, want.Counts)
		}
		// matching mode: a non-prefix subsequence of acc:n07
		doc2 := c19Accounts(p.nAccounts) + "\n2024-01-01 x\n    an07\n"
		items2, err := p.labels(p.uri, doc2, p.nAccounts+2, 8)
		if err != nil {
			add("c19.probe", "%v", err)
			return
		}
		if got := hasLabel(items2, "acc:n07"); got != want.Fuzzy {
			add("c19.effect.fuzzyMatching", "subsequence query 'an07' matches acc:n07: %v, expected fuzzyMatching=%v", got, want.Fuzzy)
		}
		// formatting
		if _, err := p.fresh(p.fmtURI, c19FmtText); err != nil {
			add("c19.probe", "%v", err)
			return
		}
		edits, err := p.h.S.Format(ctx, &protocol.DocumentFormattingParams{TextDocument: tdi(p.fmtURI)})
		if err != nil {
			add("c19.probe", "formatting: %v", err)
			return
		}
		fmtOff := !want.FeatFmt
		if fmtOff && len(edits) > 0 {
			add("c19.effect.features.formatting", "features.formatting is off, formatting still returns %d edits", len(edits))
		}
		cur, _ := p.h.S.GetDocument(protocol.DocumentURI(p.fmtURI))
		buf := refclient.New(cur)
		var res []refclient.Edit
		for _, e := range edits {
			res = append(res, refclient.Edit{Range: protoToRef(e.Range), Text: e.NewText})
		}
		out, aerr := buf.ApplyEdits(res)
		if aerr != nil {
			add("c19.probe", "formatting edits: %v", aerr)
			return
		}
		ls := strings.Split(out.String(), "\n")
		l1, l2 := ls[1], ls[2]
		ind := len(l1) - len(strings.TrimLeft(l1, " "))
		// the server bounds these two (64 and 1024) so that a huge value cannot produce gigabytes of blanks
		wantIndent, wantMinCol := min(want.Indent, 64), min(want.MinCol, 1024)
		if fmtOff {
			// nothing to measure: the document is as it was
		} else if ind != wantIndent {
			add("c19.effect.indentSize", "formatted posting %q is indented by %d, expected indentSize=%d", l1, ind, wantIndent)
		}
		col1, col2 := strings.Index(l1, "1 EUR"), strings.Index(l2, "-1 EUR")
		if fmtOff {
		} else if want.Align {
			exp := wantIndent + len("much:longer:account:name") + 2
			if wantMinCol > exp {
				exp = wantMinCol
			}
			if col1 != col2 || col1 != exp {
				add("c19.effect.alignment", "amounts start in columns %d and %d, expected both in column %d (alignAmounts on, indent %d, minAlignmentColumn %d): %q / %q", col1, col2, exp, want.Indent, want.MinCol, l1, l2)
			}
		} else if !strings.Contains(l1, "short:a  1 EUR") || strings.Contains(l1, "short:a   ") {
			add("c19.effect.alignment", "alignAmounts is off but the posting is %q (expected a two-space gap)", l1)
		}
		// diagnostics categories
		diags, err := p.fresh(p.uri, c19DiagText)
		if err != nil {
			add("c19.probe", "%v", err)
			return
		}
		// feature switches: a feature that is off answers nothing, one that is on answers
		{
			hv, _ := p.h.S.Hover(ctx, &protocol.HoverParams{TextDocumentPositionParams: tdpp(p.uri, refclient.Pos{Line: 4, Char: 8})})
			st, _ := p.h.S.SemanticTokensRange(ctx, &protocol.SemanticTokensRangeParams{TextDocument: tdi(p.uri), Range: protocol.Range{End: protocol.Position{Line: 1 << 20}}})
			fr, _ := p.h.S.FoldingRanges(ctx, &protocol.FoldingRangeParams{TextDocumentPositionParams: tdpp(p.uri, refclient.Pos{})})
			ln, _ := p.h.S.DocumentLink(ctx, &protocol.DocumentLinkParams{TextDocument: tdi(p.incOpenURI)})
			ws, _ := p.h.S.WorkspaceSymbol(ctx, &protocol.WorkspaceSymbolParams{Query: ""})
			cp, _ := p.h.S.Completion(ctx, &protocol.CompletionParams{TextDocumentPositionParams: tdpp(p.uri, refclient.Pos{Line: 5, Char: 8})})
			for _, f := range []struct {
				name     string
				answered bool
				on       bool
			}{
				{"hover", hv != nil, want.FeatHover},
				{"semanticTokens", st != nil && len(st.Data) > 0, want.FeatSemantic},
				{"foldingRanges", len(fr) > 0, want.FeatFolding},
				{"documentLinks", len(ln) > 0, want.FeatLinks},
				{"workspaceSymbol", len(ws) > 0, want.FeatWSSym},
				{"completion", cp != nil && len(cp.Items) > 0, want.FeatCompletion},
			} {
				if f.name == "completion" && disabled("c19.features.completion") {
					recC19.Excluded("c19.features.completion")
					continue
				}
				if f.answered != f.on {
					add("c19.effect.features."+f.name, "features.%s=%v, but the request is answered=%v", f.name, f.on, f.answered)
				}
			}
		}
		have := map[string]bool{}
		for _, d := range diags {
			have[fmt.Sprint(d.Code)] = true
		}
		for code, on := range map[string]bool{"UNBALANCED": want.Unbalanced, "UNDECLARED_ACCOUNT": want.UndAcct, "UNDECLARED_COMMODITY": want.UndComm} {
			exp := on && want.FeatDiagnostics
			if have[code] != exp {
				add("c19.effect.diagnostics", "%s published=%v, expected %v (its switch=%v, features.diagnostics=%v)", code, have[code], exp, on, want.FeatDiagnostics)
			}
		}
		// include depth: deep:only lives at nesting level 3
		items3, err := p.labels(p.incURI, "include l1.journal\naccount \n", 1, 8)
		if err != nil {
			add("c19.probe", "%v", err)
			return
		}
		// with a workspace folder chain0.journal and size0.journal are files of main.journal's tree, one level down
		lvl := 0
		if p.root {
			lvl = 1
		}
		if got, exp := hasLabel(items3, "deep:only"), want.MaxDepth >= 4+lvl; got != exp && want.MaxResults >= 5 {
			add("c19.effect.maxIncludeDepth", "account of the file at nesting level 3 offered=%v, expected %v with maxIncludeDepth=%d", got, exp, want.MaxDepth)
		}
		// include size
		items4, err := p.labels(p.sizeURI, "include big.journal\naccount \n", 1, 8)
		if err != nil {
			add("c19.probe", "%v", err)
			return
		}
		// the include sits at nesting level 1: it also needs maxIncludeDepth >= 2
		if got, exp := hasLabel(items4, "big:only"), want.MaxSize >= int64(p.bigSize) && want.MaxDepth >= 2+lvl; got != exp && want.MaxResults >= 5 {
			add("c19.effect.maxFileSizeBytes", "account of the %d-byte include offered=%v, expected %v with maxFileSizeBytes=%d", p.bigSize, got, exp, want.MaxSize)
		}
		// inline completion
		if _, err := p.fresh(p.uri, c19InlineText); err != nil {
			add("c19.probe", "%v", err)
			return
		}
		ic, err := p.h.S.InlineCompletion(ctx, mustJSON(map[string]any{"textDocument": map[string]any{"uri": p.uri}, "position": map[string]any{"line": 5, "character": 0}, "context": map[string]any{"triggerKind": 1}}))
		if err != nil || ic == nil {
			add("c19.probe", "inline completion: %v", err)
			return
		}
		if got := len(ic.Items) > 0; got != want.FeatInline {
			add("c19.effect.inlineCompletion", "inline completion answers=%v, expected features.inlineCompletion=%v", got, want.FeatInline)
		}
		openDocs("last request before the next change")
	})
	if perr != nil {
		add("c19.total.panic", "%v", perr)
	}
	return ds
}

func c19EffectCheck(c *C19EffectCase) ([]ev.Discrepancy, bool) {
	want := c19Defaults()
	nontrivial := false
	apply := func(e C19Event) {
		before := want
		want.apply(e, c19IntOf, c19BoolOf)
		if before != want {
			nontrivial = true
		}
		for _, en := range e.Entries {
			if en.Class == "illtyped" {
				// ill-typed entry for a setting whose previous value is not the default
				def := c19Defaults()
				if p := before.intPtr(en.Setting); p != nil && *p != *def.intPtr(en.Setting) {
					nontrivial = true
				}
				if p := before.boolPtr(en.Setting); p != nil && *p != *def.boolPtr(en.Setting) {
					nontrivial = true
				}
			}
		}
	}
	apply(c.Events[0])
	p, err := newC19Probe(c.Events[0].payload(), c.Root, c.Push)
	if err != nil {
		return []ev.Discrepancy{ev.D("c19.total.initialize", "%v", err)}, false
	}
	defer p.cleanup()
	// advertised capabilities follow features.* of initializationOptions
	caps := p.h.Init.Capabilities
	capCheck := []struct {
		name string
		got  bool
		want bool
	}{
		{"hoverProvider", caps.HoverProvider != nil && caps.HoverProvider != false, want.FeatHover},
		{"completionProvider", caps.CompletionProvider != nil, want.FeatCompletion},
		{"documentFormattingProvider", caps.DocumentFormattingProvider != nil && caps.DocumentFormattingProvider != false, want.FeatFmt},
		{"foldingRangeProvider", caps.FoldingRangeProvider != nil && caps.FoldingRangeProvider != false, want.FeatFolding},
		{"documentLinkProvider", caps.DocumentLinkProvider != nil, want.FeatLinks},
		{"workspaceSymbolProvider", caps.WorkspaceSymbolProvider != nil && caps.WorkspaceSymbolProvider != false, want.FeatWSSym},
		{"semanticTokensProvider", caps.SemanticTokensProvider != nil, want.FeatSemantic},
	}
	var ds []ev.Discrepancy
	for _, cc := range capCheck {
		if cc.got != cc.want {
			ds = append(ds, ev.D("c19.effect.capabilities", "initializationOptions %s: capability %s advertised=%v, expected %v", mustJSON(c.Events[0].payload()), cc.name, cc.got, cc.want))
		}
	}
	ds = append(ds, p.measure(want, "after initialize with "+string(mustJSON(c.Events[0].payload())))...)
	for i := 1; i < len(c.Events) && len(ds) == 0; i++ {
		apply(c.Events[i])
		var cerr error
		if c.Push {
			// through JSON, as it would arrive
			var settings any
			_ = json.Unmarshal(mustJSON(c.Events[i].payload()), &settings)
			cerr = p.h.PushConfiguration(settings)
		} else {
			p.h.C.SetConfig(c.Events[i].payload())
			cerr = p.h.ChangeConfiguration()
		}
		if err := cerr; err != nil {
			return append(ds, ev.D("c19.total.change", "%v", err)), nontrivial
		}
		if err := p.h.Quiesce(); err != nil {
			return append(ds, ev.D("c19.total.hang", "%v", err)), nontrivial
		}
		ds = append(ds, p.measure(want, fmt.Sprintf("after configuration change %d with %s", i, mustJSON(c.Events[i].payload())))...)
	}
	return ds, nontrivial
}

// ---- generators ----

func genC19Entry(t *rapid.T, setting string, isInt bool) C19Entry {
	e := C19Entry{Setting: setting, Form: rapid.SampledFrom([]string{"nested", "nested", "dotted"}).Draw(t, "form")}
	e.Class = rapid.SampledFrom([]string{"well", "well", "well", "nonpositive", "illtyped", "absent"}).Draw(t, "class")
	if !isInt && e.Class == "nonpositive" {
		e.Class = "well"
	}
	switch e.Class {
	case "well":
		if isInt {
			var n int
			switch setting {
			case "completion.maxResults":
				n = rapid.SampledFrom([]int{1, 2, 5, 10, 59, 60, 61, 200}).Draw(t, "n")
			case "formatting.indentSize":
				n = rapid.IntRange(1, 16).Draw(t, "n")
			case "formatting.minAlignmentColumn":
				n = rapid.SampledFrom([]int{1, 10, 30, 31, 40, 80, 120}).Draw(t, "n")
			case "limits.maxIncludeDepth":
				n = rapid.IntRange(1, 8).Draw(t, "n")
			case "limits.maxFileSizeBytes":
				n = rapid.SampledFrom([]int{100, 319, 320, 321, 5000, 1000000}).Draw(t, "n")
			}
			switch rapid.IntRange(0, 9).Draw(t, "enc") {
			case 9:
				// decimal digits with a leading zero are still that decimal number
				e.Value = "0" + fmt.Sprint(n)
			case 8:
				// a well-typed number far beyond any practical bound
				e.Value = rapid.SampledFrom([]float64{1e18, 1e19, 9.3e18, 1e300}).Draw(t, "huge")
			case 0:
				e.Value = fmt.Sprint(n)
			case 1:
				e.Value = " " + fmt.Sprint(n) + " "
			default:
				e.Value = float64(n)
			}
		} else {
			b := rapid.Bool().Draw(t, "b")
			switch rapid.IntRange(0, 3).Draw(t, "enc") {
			case 0:
				e.Value = map[bool]string{true: "true", false: "false"}[b]
			case 1:
				e.Value = map[bool]string{true: " TRUE ", false: "False"}[b]
			default:
				e.Value = b
			}
		}
	case "nonpositive":
		e.Value = rapid.SampledFrom([]any{float64(0), float64(-1), float64(-100), "0", "-7"}).Draw(t, "np")
	case "illtyped":
		if isInt {
			e.Value = rapid.SampledFrom([]any{true, nil, "abc", "", []any{float64(3)}, map[string]any{"x": float64(1)}, "1x", "0x10", "4_0", "0b11", "1e2", "25.0"}).Draw(t, "bad")
		} else {
			e.Value = rapid.SampledFrom([]any{float64(1), float64(0), nil, "yes", "1", "", []any{true}, map[string]any{}}).Draw(t, "bad")
		}
	}
	return e
}

func genC19Event(t *rapid.T) C19Event {
	ev := C19Event{Wrapped: rapid.Bool().Draw(t, "wrapped")}
	if !ev.Wrapped && rapid.IntRange(0, 3).Draw(t, "junkwrapper") == 0 {
		ev.Junk = rapid.SampledFrom([]string{"null", "string", "number", "bool", "array"}).Draw(t, "junk")
	}
	var ints []string
	for k := range c19IntSettings {
		ints = append(ints, k)
	}
	ints = sortedStrings(ints)
	for _, s := range ints {
		if rapid.IntRange(0, 2).Draw(t, "pick") == 0 {
			ev.Entries = append(ev.Entries, genC19Entry(t, s, true))
		}
	}
	for _, s := range c19BoolSettings {
		if rapid.IntRange(0, 3).Draw(t, "pick") == 0 {
			ev.Entries = append(ev.Entries, genC19Entry(t, s, false))
		}
	}
	return ev
}

var recC19 = ev.New("C19")

func TestC19Total(t *testing.T) {
	defer recC19.Flush()
	rapid.Check(t, func(t *rapid.T) {
		c := &C19TotalCase{Init: mustJSON(genJSON(t, 4))}
		n := rapid.IntRange(0, 3).Draw(t, "nchanges")
		for i := 0; i < n; i++ {
			c.Changes = append(c.Changes, mustJSON(genJSON(t, 4)))
		}
		ds := c19TotalCheck(c)
		nt := strings.Contains(string(c.Init), "{") || len(c.Changes) > 0
		recC19.Case(nt, mustJSON(c), "kind:arbitrary-json")
		report(t, recC19, "c19total", c, ds)
	})
}

func TestC19Effect(t *testing.T) {
	defer recC19.Flush()
	rapid.Check(t, func(t *rapid.T) {
		c := &C19EffectCase{Root: rapid.Bool().Draw(t, "root"), Push: rapid.IntRange(0, 3).Draw(t, "push") == 0}
		n := rapid.IntRange(1, 4).Draw(t, "nevents")
		for i := 0; i < n; i++ {
			c.Events = append(c.Events, genC19Event(t))
		}
		ds, nt := c19EffectCheck(c)
		recC19.Case(nt, mustJSON(c), "kind:structured", fmt.Sprintf("events:%d", n), fmt.Sprintf("workspace-root:%v", c.Root), fmt.Sprintf("settings-pushed:%v", c.Push))
		if nt && recC19.WantSample() {
			var ps []any
			for _, e := range c.Events {
				ps = append(ps, e.payload())
			}
			recC19.Sample(ps)
		}
		report(t, recC19, "c19effect", c, ds)
	})
}

func init() {
	replayers["c19total"] = func(raw json.RawMessage) ([]ev.Discrepancy, error) {
		var c C19TotalCase
		if err := json.Unmarshal(raw, &c); err != nil {
			return nil, err
		}
		return c19TotalCheck(&c), nil
	}
	replayers["c19effect"] = func(raw json.RawMessage) ([]ev.Discrepancy, error) {
		var c C19EffectCase
		if err := json.Unmarshal(raw, &c); err != nil {
			return nil, err
		}
		ds, _ := c19EffectCheck(&c)
		return ds, nil
	}
}
