package checks

// C19, "take effect on subsequent behaviour", as a differential: a server goes through a
// history of document notifications and configuration changes (limits, completion,
// formatting, diagnostics and feature switches); at the end every answer it gives — and the
// diagnostics it publishes for a final edit — must be those of a fresh server that was
// started with the final configuration and opened the final texts. A setting that is stored
// but applied only on some paths (a cache filled under the old value, an incremental
// update that does not look at the limits) shows as a difference.

import (
	"encoding/json"
	"fmt"
	"os"
	"path/filepath"
	"strings"
	"testing"

	"pgregory.net/rapid"

	"github.com/juev/hledger-lsp/verifharness/ev"
	"github.com/juev/hledger-lsp/verifharness/lspx"
	"github.com/juev/hledger-lsp/verifharness/refclient"
)

var c19fNames = []string{"main.journal", "b.journal", "c.journal"}

type C19FOp struct {
	Op      string         `json:"op"` // open | change | close | save | config
	Doc     int            `json:"doc"`
	Version int            `json:"version,omitempty"`
	Pad     int            `json:"pad,omitempty"` // comment lines that make the text longer
	Config  map[string]any `json:"config,omitempty"`
}

type C19FCase struct {
	Root  bool     `json:"root"`
	Chain bool     `json:"chain"` // main includes b, b includes c (otherwise main includes both)
	Pads  [3]int   `json:"pads"`  // padding of the files on disk
	Ops   []C19FOp `json:"ops"`
}

// c19fText is version v of file d: accounts, a payee template and a declared commodity that no
// other version of any file has, plus pad comment lines of 40 bytes.
func c19fText(d, v, pad int, chain bool) string {
	tag := fmt.Sprintf("%c%d", "mbc"[d], v)
	var sb strings.Builder
	switch {
	case d == 0 && chain:
		sb.WriteString("include b.journal\n\n")
	case d == 0:
		sb.WriteString("include b.journal\ninclude c.journal\n\n")
	case d == 1 && chain:
		sb.WriteString("include c.journal\n\n")
	}
	fmt.Fprintf(&sb, "account expenses:decl%s\ncommodity 1.000,00 C%s\n\n", tag, strings.ToUpper(tag))
	fmt.Fprintf(&sb, "2024-01-%02d shop\n    expenses:use%s  %d EUR\n    assets:cash\n\n", d+1, tag, v+1)
	fmt.Fprintf(&sb, "2024-01-%02d shop\n    expenses:use%s  1 EUR\n    assets:cash  -2 EUR\n\n", d+11, tag)
	for i := 0; i < pad; i++ {
		fmt.Fprintf(&sb, "; %s\n", strings.Repeat("x", 37))
	}
	fmt.Fprintf(&sb, "2024-02-%02d shop\n\n", d+1)
	return sb.String()
}

type c19fProbe struct {
	kind string
	pos  func(text string) refclient.Pos
}

func c19fLine(text, prefix string, delta, char int) refclient.Pos {
	for i, l := range strings.Split(text, "\n") {
		if strings.HasPrefix(l, prefix) {
			return refclient.Pos{Line: i + delta, Char: char}
		}
	}
	return refclient.Pos{}
}

var c19fProbes = []c19fProbe{
	{"completion", func(t string) refclient.Pos { return c19fLine(t, "    expenses:use", 0, 5) }},
	{"completion", func(t string) refclient.Pos { return c19fLine(t, "    expenses:use", 0, 13) }},
	{"inlineCompletion", func(t string) refclient.Pos { return c19fLine(t, "2024-02-", 1, 0) }},
	{"hover", func(t string) refclient.Pos { return c19fLine(t, "    expenses:use", 0, 8) }},
	{"references", func(t string) refclient.Pos { return c19fLine(t, "    assets:cash", 0, 8) }},
	{"definition", func(t string) refclient.Pos { return c19fLine(t, "    expenses:use", 0, 8) }},
	{"formatting", func(string) refclient.Pos { return refclient.Pos{} }},
	{"documentSymbol", func(string) refclient.Pos { return refclient.Pos{} }},
	{"folding", func(string) refclient.Pos { return refclient.Pos{} }},
	{"links", func(string) refclient.Pos { return refclient.Pos{} }},
	{"semanticRange", func(string) refclient.Pos { return refclient.Pos{} }},
	{"workspaceSymbol", func(string) refclient.Pos { return refclient.Pos{} }},
	{"rename", func(t string) refclient.Pos { return c19fLine(t, "    expenses:use", 0, 8) }},
}

// c19fMerge lays a configuration change over what the client had before (sections merge).
func c19fMerge(cum, change map[string]any) map[string]any {
	out := map[string]any{}
	for k, v := range cum {
		out[k] = v
	}
	for k, v := range change {
		sec, isSec := v.(map[string]any)
		old, had := out[k].(map[string]any)
		if isSec && had {
			mm := map[string]any{}
			for kk, vv := range old {
				mm[kk] = vv
			}
			for kk, vv := range sec {
				mm[kk] = vv
			}
			out[k] = mm
		} else {
			out[k] = v
		}
	}
	return out
}

var c19fSeq int

type c19fState struct {
	open [3]bool
	text [3]string
	disk [3]string
}

// c19fAnswers: the final edit (same text again) of every open document, the diagnostics it
// publishes, and the probes.
func c19fAnswers(h *lspx.Harness, uris []string, st *c19fState, dir string) ([]string, []string, error) {
	var out, labels []string
	for d := 0; d < 3; d++ {
		if !st.open[d] {
			continue
		}
		if err := h.Change(uris[d], 1000+d, []refclient.Change{{Text: st.text[d]}}); err != nil {
			return nil, nil, err
		}
		if err := h.Quiesce(); err != nil {
			return nil, nil, err
		}
		diags, _ := h.C.LastDiagnostics(uris[d])
		b, _ := json.Marshal(diags)
		out = append(out, string(b))
		labels = append(labels, "diagnostics published for "+c19fNames[d])
	}
	for d := 0; d < 3; d++ {
		if !st.open[d] {
			continue
		}
		for _, pr := range c19fProbes {
			pos := pr.pos(st.text[d])
			got, err := ask2(h, pr.kind, uris[d], pos)
			if err != nil {
				return nil, nil, err
			}
			out = append(out, strings.ReplaceAll(got, dir, "<ws>"))
			labels = append(labels, fmt.Sprintf("%s at %d:%d in %s", pr.kind, pos.Line, pos.Char, c19fNames[d]))
		}
	}
	return out, labels, nil
}

func c19fCheck(c *C19FCase) (ds []ev.Discrepancy, classes []string) {
	cls := map[string]bool{}
	c19fSeq++
	base := filepath.Join(scratch(), fmt.Sprintf("c19f-%d", c19fSeq))
	dir := filepath.Join(base, "w")
	defer os.RemoveAll(base)
	st := &c19fState{}
	start := func(cfg map[string]any) (*lspx.Harness, []string, error) {
		_ = os.RemoveAll(dir)
		_ = os.MkdirAll(dir, 0o755)
		uris := make([]string, 3)
		for d := 0; d < 3; d++ {
			p := filepath.Join(dir, c19fNames[d])
			uris[d] = "file://" + p
			if err := os.WriteFile(p, []byte(st.disk[d]), 0o644); err != nil {
				return nil, nil, err
			}
		}
		opts := lspx.Options{SupportsConfiguration: true, Config: cfg}
		if cfg != nil {
			opts.InitOptions = cfg
		}
		if c.Root {
			opts.RootDir = dir
		}
		h, err := lspx.New(opts)
		return h, uris, err
	}
	for d := 0; d < 3; d++ {
		st.disk[d] = c19fText(d, 0, c.Pads[d], c.Chain)
	}
	h, uris, err := start(nil)
	if err != nil {
		return []ev.Discrepancy{ev.D("c19.harness", "%v", err)}, nil
	}
	if err := h.Quiesce(); err != nil {
		return []ev.Discrepancy{ev.D("c19.harness", "%v", err)}, nil
	}
	cum := map[string]any{}
	version := 1
	for _, op := range c.Ops {
		d := op.Doc
		switch op.Op {
		case "open":
			if st.open[d] {
				continue
			}
			st.text[d], st.open[d] = c19fText(d, op.Version, op.Pad, c.Chain), true
			_ = h.Open(uris[d], st.text[d])
		case "change":
			if !st.open[d] {
				continue
			}
			version++
			st.text[d] = c19fText(d, op.Version, op.Pad, c.Chain)
			_ = h.Change(uris[d], version, []refclient.Change{{Text: st.text[d]}})
		case "close":
			if !st.open[d] {
				continue
			}
			st.open[d] = false
			_ = h.Close(uris[d])
		case "save":
			if !st.open[d] {
				continue
			}
			st.disk[d] = st.text[d]
			_ = os.WriteFile(filepath.Join(dir, c19fNames[d]), []byte(st.disk[d]), 0o644)
			_ = h.Save(uris[d])
			cls["save"] = true
		case "config":
			cum = c19fMerge(cum, op.Config)
			h.C.SetConfig(cum)
			_ = h.ChangeConfiguration()
			if lim, ok := op.Config["limits"].(map[string]any); ok {
				if _, ok := lim["maxFileSizeBytes"]; ok {
					cls["size-limit-changed"] = true
				}
				if _, ok := lim["maxIncludeDepth"]; ok {
					cls["depth-limit-changed"] = true
				}
			}
			for k := range op.Config {
				cls["section:"+k] = true
			}
		}
		if err := h.Quiesce(); err != nil {
			return []ev.Discrepancy{ev.D("c19.harness", "%v", err)}, keys(cls)
		}
	}
	nopen := 0
	for d := 0; d < 3; d++ {
		if st.open[d] {
			nopen++
		}
	}
	if nopen == 0 {
		st.text[0], st.open[0] = st.disk[0], true
		_ = h.Open(uris[0], st.text[0])
		_ = h.Quiesce()
	}
	got, labels, err := c19fAnswers(h, uris, st, dir)
	if err != nil {
		return []ev.Discrepancy{ev.D("c19.harness", "%v", err)}, keys(cls)
	}
	for d := 0; d < 3; d++ {
		if st.open[d] {
			_ = h.Close(uris[d])
		}
	}
	_ = h.Quiesce()
	// the reference: a fresh server started with the final configuration, same files, same buffers
	fresh, furis, err := start(cum)
	if err != nil {
		return []ev.Discrepancy{ev.D("c19.harness", "%v", err)}, keys(cls)
	}
	_ = fresh.Quiesce()
	for d := 0; d < 3; d++ {
		if st.open[d] {
			_ = fresh.Open(furis[d], st.text[d])
		}
	}
	_ = fresh.Quiesce()
	want, _, err := c19fAnswers(fresh, furis, st, dir)
	if err != nil {
		return []ev.Discrepancy{ev.D("c19.harness", "%v", err)}, keys(cls)
	}
	cfgJSON, _ := json.Marshal(cum)
	for i := range got {
		if i < len(want) && got[i] != want[i] {
			ds = append(ds, ev.D("c19.fresh."+strings.Fields(labels[i])[0], "after the history (workspace root %v, final configuration %s) %s answers %.500s; a fresh server started with that configuration on the same files and buffers answers %.500s",
				c.Root, cfgJSON, labels[i], got[i], want[i]))
			if len(ds) >= 3 {
				break
			}
		}
	}
	return ds, keys(cls)
}

func genC19FConfig(t *rapid.T, sizes []int) map[string]any {
	cfg := map[string]any{}
	switch rapid.IntRange(0, 5).Draw(t, "what") {
	case 0, 1:
		lim := map[string]any{}
		if rapid.Bool().Draw(t, "depth") {
			lim["maxIncludeDepth"] = float64(rapid.IntRange(1, 4).Draw(t, "md"))
		}
		if len(lim) == 0 || rapid.Bool().Draw(t, "size") {
			lim["maxFileSizeBytes"] = float64(rapid.SampledFrom(sizes).Draw(t, "mfs") + rapid.IntRange(-1, 1).Draw(t, "mfsd"))
		}
		cfg["limits"] = lim
	case 2:
		cfg["completion"] = map[string]any{"maxResults": float64(rapid.IntRange(1, 30).Draw(t, "mr")), "fuzzyMatching": rapid.Bool().Draw(t, "fz"), "showCounts": rapid.Bool().Draw(t, "sc")}
	case 3:
		cfg["formatting"] = map[string]any{"indentSize": float64(rapid.IntRange(1, 8).Draw(t, "is")), "alignAmounts": rapid.Bool().Draw(t, "al")}
	case 4:
		cfg["diagnostics"] = map[string]any{"undeclaredAccounts": rapid.Bool().Draw(t, "ua"), "undeclaredCommodities": rapid.Bool().Draw(t, "uc"), "unbalancedTransactions": rapid.Bool().Draw(t, "ub")}
	case 5:
		// feature switches other than completion (open finding C19-F3)
		f := map[string]any{}
		for _, k := range []string{"hover", "formatting", "semanticTokens", "foldingRanges", "documentLinks", "workspaceSymbol", "inlineCompletion", "diagnostics"} {
			if rapid.IntRange(0, 3).Draw(t, "f"+k) == 0 {
				f[k] = rapid.Bool().Draw(t, "fv"+k)
			}
		}
		cfg["features"] = f
	}
	return cfg
}

func genC19F(t *rapid.T) *C19FCase {
	c := &C19FCase{Root: rapid.Bool().Draw(t, "root"), Chain: rapid.Bool().Draw(t, "chain")}
	for d := 0; d < 3; d++ {
		c.Pads[d] = rapid.IntRange(0, 6).Draw(t, "pad")
	}
	// sizes the texts can have: limits are drawn around them
	var sizes []int
	for d := 0; d < 3; d++ {
		for pad := 0; pad <= 6; pad += 2 {
			sizes = append(sizes, len(c19fText(d, 1, pad, c.Chain)))
		}
	}
	open := [3]bool{}
	steps := rapid.IntRange(3, 9).Draw(t, "steps")
	for s := 0; s < steps; s++ {
		if rapid.IntRange(0, 2).Draw(t, "cfg") == 0 {
			c.Ops = append(c.Ops, C19FOp{Op: "config", Config: genC19FConfig(t, sizes)})
			continue
		}
		d := rapid.IntRange(0, 2).Draw(t, "doc")
		op := C19FOp{Doc: d, Pad: rapid.IntRange(0, 6).Draw(t, "oppad")}
		switch {
		case !open[d]:
			op.Op, op.Version = "open", rapid.SampledFrom([]int{0, 0, s + 1}).Draw(t, "ov")
			if op.Version == 0 {
				op.Pad = c.Pads[d]
			}
			open[d] = true
		case rapid.IntRange(0, 4).Draw(t, "close") == 0:
			op.Op = "close"
			open[d] = false
		case rapid.IntRange(0, 4).Draw(t, "save") == 0:
			op.Op = "save"
		default:
			op.Op, op.Version = "change", s+1
		}
		c.Ops = append(c.Ops, op)
	}
	return c
}

func TestC19Fresh(t *testing.T) {
	defer recC19.Flush()
	limit := 300
	if tier() == "thorough" {
		limit = 6000
	}
	n := 0
	rapid.Check(t, func(t *rapid.T) {
		if n >= limit && recC19.Evals() > 0 {
			return
		}
		n++
		c := genC19F(t)
		ds, cls := c19fCheck(c)
		nt := false
		for _, k := range cls {
			if k == "size-limit-changed" || k == "depth-limit-changed" {
				nt = true
			}
		}
		recC19.Case(nt, mustJSON(c), append(cls, "fresh-server-differential", fmt.Sprintf("workspace-root:%v", c.Root))...)
		report(t, recC19, "c19fresh", c, ds)
	})
}

func init() {
	replayers["c19fresh"] = func(raw json.RawMessage) ([]ev.Discrepancy, error) {
		var c C19FCase
		if err := json.Unmarshal(raw, &c); err != nil {
			return nil, err
		}
		ds, _ := c19fCheck(&c)
		return ds, nil
	}
}
