package checks

// C20 — hover figures are exact aggregates over the whole include tree.
// Oracle: exact rational sums and counts computed from the model over the files in scope.

import (
	"context"
	"encoding/json"
	"fmt"
	"math/big"
	"regexp"
	"strings"
	"testing"

	"go.lsp.dev/protocol"
	"pgregory.net/rapid"

	"github.com/juev/hledger-lsp/verifharness/ev"
	"github.com/juev/hledger-lsp/verifharness/gen"
	"github.com/juev/hledger-lsp/verifharness/lspx"
	m "github.com/juev/hledger-lsp/verifharness/model"
	"github.com/juev/hledger-lsp/verifharness/refclient"
)

type C20Case struct {
	WS   *gen.Workspace `json:"ws"`
	Root bool           `json:"root"`
	From int            `json:"from"`
	// AlsoOpen: other files opened in the editor (with the text they have on disk) before the hovers
	// are asked: what is shown for them must not change what is counted
	AlsoOpen []int `json:"also_open,omitempty"`
}

type acctAgg struct {
	sums     map[string]*big.Rat
	withAmt  int
	postings int
}

type c20Truth struct {
	accounts  map[string]*acctAgg
	payeeTx   map[string]int
	tagUses   map[string]int
	tagValues map[string]int // name \x00 value
}

func c20Aggregate(js []*m.Journal) *c20Truth {
	tr := &c20Truth{accounts: map[string]*acctAgg{}, payeeTx: map[string]int{}, tagUses: map[string]int{}, tagValues: map[string]int{}}
	tag := func(c *m.Comment) {
		for _, kv := range c.Tags() {
			tr.tagUses[kv[0]]++
			tr.tagValues[kv[0]+"\x00"+kv[1]]++
		}
	}
	for _, j := range js {
		for _, e := range j.Entries {
			if e.Tx == nil {
				continue
			}
			if !e.Tx.NoDesc {
				tr.payeeTx[e.Tx.Payee]++
			}
			if e.Tx.HC != nil {
				tag(e.Tx.HC)
			}
			for _, it := range e.Tx.Body {
				if it.C != nil {
					tag(it.C)
					continue
				}
				p := it.P
				a := tr.accounts[p.Account]
				if a == nil {
					a = &acctAgg{sums: map[string]*big.Rat{}}
					tr.accounts[p.Account] = a
				}
				a.postings++
				if p.Amt != nil {
					a.withAmt++
					if a.sums[p.Amt.Sym] == nil {
						a.sums[p.Amt.Sym] = new(big.Rat)
					}
					a.sums[p.Amt.Sym].Add(a.sums[p.Amt.Sym], p.Amt.Q.Rat())
				}
				if p.Comment != nil {
					tag(p.Comment)
				}
			}
		}
	}
	return tr
}

var (
	reCount = regexp.MustCompile(`\*\*(Postings|Transactions|Usage):\*\* (\d+)`)
)

func hoverCount(md, label string) (int, bool) {
	for _, mm := range reCount.FindAllStringSubmatch(md, -1) {
		if mm[1] == label {
			var n int
			fmt.Sscan(mm[2], &n)
			return n, true
		}
	}
	return 0, false
}

// hoverBalances parses the "- <number> <commodity>" lines after "**Balance:**".
func hoverBalances(md string) (map[string]*big.Rat, error) {
	out := map[string]*big.Rat{}
	lines := strings.Split(md, "\n")
	in := false
	for _, l := range lines {
		if strings.HasPrefix(l, "**Balance:**") {
			in = true
			continue
		}
		if !in {
			continue
		}
		if !strings.HasPrefix(l, "- ") {
			if strings.TrimSpace(l) == "" {
				in = false
			}
			continue
		}
		rest := l[2:]
		sp := strings.Index(rest, " ")
		num, sym := rest, ""
		if sp >= 0 {
			num, sym = rest[:sp], rest[sp+1:]
		}
		r, ok := new(big.Rat).SetString(num)
		if !ok {
			return nil, fmt.Errorf("balance line %q: %q is not a number", l, num)
		}
		if _, dup := out[sym]; dup {
			return nil, fmt.Errorf("commodity %q listed twice", sym)
		}
		out[sym] = r
	}
	return out, nil
}

func ratMapEq(a, b map[string]*big.Rat) bool {
	zero := new(big.Rat)
	for k, v := range a {
		w := b[k]
		if w == nil {
			w = zero
		}
		if v.Cmp(w) != 0 {
			return false
		}
	}
	for k, v := range b {
		if a[k] == nil && v.Sign() != 0 {
			return false
		}
	}
	return true
}

func ratMapStr(a map[string]*big.Rat) string {
	var parts []string
	for k, v := range a {
		parts = append(parts, fmt.Sprintf("%q:%s", k, v.RatString()))
	}
	return "{" + strings.Join(sortedStrings(parts), ", ") + "}"
}

func sortedStrings(s []string) []string {
	out := append([]string(nil), s...)
	for i := range out {
		for j := i + 1; j < len(out); j++ {
			if out[j] < out[i] {
				out[i], out[j] = out[j], out[i]
			}
		}
	}
	return out
}

var reAmount = regexp.MustCompile(`^\*\*Amount:\*\* (\S+) ?(.*)$`)
var reCost = regexp.MustCompile(`^\*\*(Unit|Total) cost:\*\* @@? (\S+) ?(.*)$`)

func c20Check(c *C20Case) (ds []ev.Discrepancy, stats map[string]int) {
	stats = map[string]int{}
	env, err := newWSEnv(c.WS, c.Root, lspx.Options{})
	if err != nil {
		return []ev.Discrepancy{ev.D("c20.harness", "%v", err)}, stats
	}
	defer env.Cleanup()
	h := env.H
	uri := env.URIs[c.From]
	if _, err := h.OpenAndWait(uri, env.Disk[c.From].Text); err != nil {
		return []ev.Discrepancy{ev.D("c20.harness", "%v", err)}, stats
	}
	defer func() { _ = h.Close(uri) }()
	for _, fi := range c.AlsoOpen {
		if fi == c.From || fi < 0 || fi >= len(env.URIs) {
			continue
		}
		if _, err := h.OpenAndWait(env.URIs[fi], env.Disk[fi].Text); err != nil {
			return []ev.Discrepancy{ev.D("c20.harness", "%v", err)}, stats
		}
		u := env.URIs[fi]
		defer func() { _ = h.Close(u) }()
		stats["other_files_open"]++
	}
	scope := env.scopeOf(c.From, c.Root)
	var js []*m.Journal
	for _, fi := range scope {
		js = append(js, c.WS.Files[fi].Journal)
	}
	truth := c20Aggregate(js)
	stats["scope_files"] = len(scope)
	r := env.Disk[c.From]
	j := c.WS.Files[c.From].Journal
	buf := refclient.New(r.Text)
	ctx := context.Background()
	add := func(sp m.Span, assertion, format string, a ...any) {
		if len(ds) < 30 {
			ds = append(ds, ev.Discrepancy{Assertion: assertion, Features: featList(r.EntryFeats[sp.Entry]),
				Detail: fmt.Sprintf("hover at %d:%d on %s %q in %s (root=%v, %d files in scope): ", sp.Line, sp.S, sp.Kind, sp.Text, c.WS.Files[c.From].Rel, c.Root, len(scope)) + fmt.Sprintf(format, a...)})
		}
	}
	for _, sp := range r.Spans {
		e := &j.Entries[sp.Entry]
		if e.Tx == nil {
			continue
		}
		switch sp.Kind {
		case "account", "description", "payee", "tagname", "tagvalue", "amount":
		default:
			continue
		}
		pos := refclient.Pos{Line: sp.Line, Char: sp.S + (sp.E-sp.S)/2}
		if buf.ValidatePos(pos) != nil {
			pos.Char = sp.S
		}
		if sp.Kind == "tagvalue" && sp.E-sp.S == 1 {
			pos.Char = sp.E // the boundary between name-colon and a one-character value belongs to the value at its end
		}
		var hv *protocol.Hover
		var herr error
		if perr := lspx.Guard(func() { hv, herr = h.S.Hover(ctx, &protocol.HoverParams{TextDocumentPositionParams: tdpp(uri, pos)}) }); perr != nil || herr != nil {
			add(sp, "c20.total", "failed: %v %v", perr, herr)
			continue
		}
		if hv == nil {
			add(sp, "c20.hover.none", "no hover")
			continue
		}
		md := hv.Contents.Value
		stats["hovers"]++
		switch sp.Kind {
		case "account":
			want := truth.accounts[sp.Text]
			got, perr := hoverBalances(md)
			if perr != nil {
				add(sp, "c20.account.format", "%v in %q", perr, md)
				continue
			}
			if !strings.Contains(md, "**Account:**") {
				add(sp, "c20.account.kind", "not an account hover: %q", md)
				continue
			}
			if !ratMapEq(got, want.sums) {
				add(sp, "c20.account.sum", "balances %s, exact sums over the scope are %s", ratMapStr(got), ratMapStr(want.sums))
			}
			n, ok := hoverCount(md, "Postings")
			if !ok || (n != want.postings && n != want.withAmt) {
				add(sp, "c20.account.count", "posting count %d (found=%v), the account has %d postings (%d with an amount) in scope", n, ok, want.postings, want.withAmt)
			}
			files := 0
			for _, fj := range js {
				for _, fe := range fj.Entries {
					if fe.Tx != nil {
						hit := false
						for _, p := range fe.Tx.Postings() {
							if p.Account == sp.Text {
								hit = true
							}
						}
						if hit {
							files++
							break
						}
					}
				}
			}
			if files >= 2 || len(want.sums) >= 2 {
				stats["nontrivial_account_hovers"]++
			}
		case "description", "payee":
			if !strings.Contains(md, "**Payee:**") {
				add(sp, "c20.payee.kind", "not a payee hover: %q", md)
				continue
			}
			n, ok := hoverCount(md, "Transactions")
			if !ok || n != truth.payeeTx[sp.Text] {
				add(sp, "c20.payee.count", "transaction count %d (found=%v), exact count is %d", n, ok, truth.payeeTx[sp.Text])
			}
		case "tagname":
			if !strings.Contains(md, "**Tag:**") {
				add(sp, "c20.tag.kind", "not a tag hover: %q", md)
				continue
			}
			if strings.Contains(md, "**Value:**") {
				continue // at a boundary the value may be reported
			}
			n, ok := hoverCount(md, "Usage")
			if !ok || n != truth.tagUses[sp.Text] {
				add(sp, "c20.tag.count", "usage count %d (found=%v), exact count is %d", n, ok, truth.tagUses[sp.Text])
			}
		case "tagvalue":
			if !strings.Contains(md, "**Value:**") {
				continue // cursor resolved to the tag name (boundary)
			}
			// which tag does this value belong to: the tagname span right before it
			name := ""
			for _, s2 := range r.Spans {
				if s2.Kind == "tagname" && s2.Line == sp.Line && s2.E+1 <= sp.S && s2.E+3 >= sp.S {
					name = s2.Text
				}
			}
			if name == "" {
				continue
			}
			n, ok := hoverCount(md, "Usage")
			want := truth.tagValues[name+"\x00"+strings.TrimSpace(sp.Text)]
			if !ok || n != want {
				add(sp, "c20.tagvalue.count", "usage count %d (found=%v) for %s:%s, exact count is %d", n, ok, name, sp.Text, want)
			}
		case "amount":
			p := e.Tx.Postings()[sp.Post]
			lines := strings.Split(md, "\n")
			mm := reAmount.FindStringSubmatch(lines[0])
			if mm == nil {
				add(sp, "c20.amount.format", "unexpected amount hover %q", md)
				continue
			}
			q, ok := new(big.Rat).SetString(mm[1])
			if !ok || q.Cmp(p.Amt.Q.Rat()) != 0 || mm[2] != p.Amt.Sym {
				add(sp, "c20.amount.value", "shows %s %q, written %s %q", mm[1], mm[2], p.Amt.Q.Rat().RatString(), p.Amt.Sym)
			}
			if p.Cost != nil {
				found := false
				for _, l := range lines[1:] {
					cm := reCost.FindStringSubmatch(l)
					if cm == nil {
						continue
					}
					found = true
					cq, ok := new(big.Rat).SetString(cm[2])
					wantKind := "Unit"
					if p.Cost.Total {
						wantKind = "Total"
					}
					if !ok || cq.Cmp(p.Cost.A.Q.Rat()) != 0 || cm[3] != p.Cost.A.Sym || cm[1] != wantKind {
						add(sp, "c20.amount.cost", "shows %s cost %s %q, written total=%v %s %q", cm[1], cm[2], cm[3], p.Cost.Total, p.Cost.A.Q.Rat().RatString(), p.Cost.A.Sym)
					}
				}
				if !found {
					add(sp, "c20.amount.cost", "cost not shown in %q", md)
				}
			}
		}
	}
	// tags without a value: just behind the colon the cursor is on the (empty) value, whose uses are counted too
	for _, sp := range r.Spans {
		if sp.Kind != "tagname" || j.Entries[sp.Entry].Tx == nil {
			continue
		}
		hasValue := false
		for _, s2 := range r.Spans {
			if s2.Kind == "tagvalue" && s2.Line == sp.Line && s2.S >= sp.E+1 && s2.S <= sp.E+3 {
				hasValue = true
			}
		}
		if hasValue {
			continue
		}
		pos := refclient.Pos{Line: sp.Line, Char: sp.E + 1}
		if buf.ValidatePos(pos) != nil {
			continue
		}
		var hv *protocol.Hover
		if perr := lspx.Guard(func() { hv, _ = h.S.Hover(ctx, &protocol.HoverParams{TextDocumentPositionParams: tdpp(uri, pos)}) }); perr != nil || hv == nil {
			continue
		}
		md := hv.Contents.Value
		if !strings.Contains(md, "**Value:**") || !strings.Contains(md, sp.Text) {
			continue // resolved to something else at this boundary
		}
		stats["hovers"]++
		stats["empty_tag_values"]++
		if n, ok := hoverCount(md, "Usage"); ok && n != truth.tagValues[sp.Text+"\x00"] {
			add(sp, "c20.tagvalue.count", "hover just behind the colon: usage count %d for the empty value of %s, exact count is %d", n, sp.Text, truth.tagValues[sp.Text+"\x00"])
		}
	}
	return ds, stats
}

var c20Opts = gen.WSOpts{MinFiles: 1, MaxFiles: 4,
	Journal: gen.JournalOpts{MinEntries: 1, MaxEntries: 4, Directives: true, TopComments: false, Tx: gen.TxOpts{MaxPostings: 4, MaxScale: 12, MaxDigits: 14}}}

var recC20 = ev.New("C20")

func TestC20(t *testing.T) {
	defer recC20.Flush()
	sv := newSurvey()
	if surveyOn() {
		defer sv.print()
	}
	rapid.Check(t, func(t *rapid.T) {
		p := &gen.Profile{Off: func(f string) bool { return f == "dir.account-comment" || disabled(f) }, Excluded: recC20.Excluded}
		pools := gen.GenPools(t, p)
		ws := gen.GenWorkspace(t, p, pools, c20Opts)
		c := &C20Case{WS: ws, Root: rapid.Bool().Draw(t, "root")}
		if c.Root {
			c.From = rapid.SampledFrom(ws.Reachable(0)).Draw(t, "from")
		} else {
			c.From = rapid.IntRange(0, len(ws.Files)-1).Draw(t, "from")
		}
		if len(ws.Files) > 1 && rapid.Bool().Draw(t, "alsoopen") {
			for fi := range ws.Files {
				if fi != c.From && rapid.Bool().Draw(t, "openit") {
					c.AlsoOpen = append(c.AlsoOpen, fi)
				}
			}
		}
		ds, st := c20Check(c)
		nt := st["nontrivial_account_hovers"] > 0
		cls := []string{fmt.Sprintf("root:%v", c.Root), fmt.Sprintf("from-root-file:%v", c.From == 0), fmt.Sprintf("files:%d", len(ws.Files)), fmt.Sprintf("other-files-open:%v", len(c.AlsoOpen) > 0)}
		recC20.Case(nt, mustJSON(c), cls...)
		for k, v := range st {
			recC20.Count(k, int64(v))
		}
		if nt && recC20.WantSample() {
			var sb strings.Builder
			for _, f := range ws.Files {
				sb.WriteString("== " + f.Rel + "\n" + m.Render(f.Journal).Text)
			}
			recC20.Sample(map[string]any{"root": c.Root, "from": ws.Files[c.From].Rel, "files": sb.String()})
		}
		if surveyOn() {
			sv.add(append(featList(m.Render(ws.Files[c.From].Journal).Feats), cls...), ds)
			return
		}
		report(t, recC20, "c20", c, ds)
	})
}

func init() {
	replayers["c20"] = func(raw json.RawMessage) ([]ev.Discrepancy, error) {
		var c C20Case
		if err := json.Unmarshal(raw, &c); err != nil {
			return nil, err
		}
		ds, _ := c20Check(&c)
		return ds, nil
	}
}
