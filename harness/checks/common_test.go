package checks

import (
	"encoding/json"
	"fmt"
	"os"
	"path/filepath"
	"strconv"
	"testing"

	"github.com/juev/hledger-lsp/verifharness/ev"
	"pgregory.net/rapid"
)

type replayFn func(raw json.RawMessage) ([]ev.Discrepancy, error)

var replayers = map[string]replayFn{}

func envInt(name string, def int) int {
	if v := os.Getenv(name); v != "" {
		if n, err := strconv.Atoi(v); err == nil {
			return n
		}
	}
	return def
}

func tier() string {
	if os.Getenv("VERIF_TIER") == "thorough" {
		return "thorough"
	}
	return "quick"
}

// scratch returns a private scratch directory for this process.
func scratch() string {
	d := os.Getenv("VERIF_SCRATCH")
	if d == "" {
		d = filepath.Join(os.TempDir(), fmt.Sprintf("verif-scratch-%d", os.Getpid()))
	}
	_ = os.MkdirAll(d, 0o755)
	return d
}

// disabled reports whether a generator feature is switched off for the main
// campaign (VERIF_DISABLE is a comma separated list written by the driver from
// the open entries of known_findings.json).
var disabledSet map[string]bool

func disabled(f string) bool {
	if disabledSet == nil {
		disabledSet = map[string]bool{}
		for _, s := range splitComma(os.Getenv("VERIF_DISABLE")) {
			disabledSet[s] = true
		}
	}
	return disabledSet[f]
}

func splitComma(s string) []string {
	var out []string
	cur := ""
	for _, r := range s {
		if r == ',' {
			if cur != "" {
				out = append(out, cur)
			}
			cur = ""
		} else {
			cur += string(r)
		}
	}
	if cur != "" {
		out = append(out, cur)
	}
	return out
}

// report records a case and fails the rapid run when the oracle disagreed.
func report(t *rapid.T, rec *ev.Recorder, check string, c any, ds []ev.Discrepancy) {
	if len(ds) > 0 {
		rec.Fail(check, c, ds)
		t.Fatalf("%s: %d discrepancies, first: [%s] %s", check, len(ds), ds[0].Assertion, ds[0].Detail)
	}
}

func mustJSON(v any) []byte {
	b, err := json.Marshal(v)
	if err != nil {
		panic(err)
	}
	return b
}

// TestReplay re-executes one saved case without the generator library.
func TestReplay(t *testing.T) {
	f := os.Getenv("VERIF_REPLAY")
	if f == "" {
		t.Skip("VERIF_REPLAY not set")
	}
	raw, err := os.ReadFile(f)
	if err != nil {
		t.Fatal(err)
	}
	var doc struct {
		Property string          `json:"property"`
		Check    string          `json:"check"`
		Case     json.RawMessage `json:"case"`
		Expect   string          `json:"expect"`
	}
	if err := json.Unmarshal(raw, &doc); err != nil {
		t.Fatal(err)
	}
	fn, ok := replayers[doc.Check]
	if !ok {
		t.Fatalf("no replayer for check %q", doc.Check)
	}
	ds, err := fn(doc.Case)
	res := map[string]any{"file": f, "property": doc.Property, "check": doc.Check, "expect": doc.Expect, "discrepancies": ds}
	if err != nil {
		res["error"] = err.Error()
	}
	b, _ := json.MarshalIndent(res, "", " ")
	out := os.Getenv("VERIF_OUT")
	if out != "" {
		_ = os.WriteFile(filepath.Join(out, "replay_result.json"), b, 0o644)
	}
	fmt.Println(string(b))
}
