package checks

// Native coverage-guided fuzz targets for C06 (thorough tier). The semantic
// oracle sits inside the target; a failing input is also written as a replay
// case to VERIF_OUT so the driver can report it.

import (
	"os"
	"testing"

	"github.com/juev/hledger-lsp/verifharness/ev"
)

func fuzzSeeds(f *testing.F) {
	for _, s := range loadValidJournals() {
		f.Add([]byte(s))
	}
	for _, h := range hostile {
		f.Add([]byte(h))
		f.Add([]byte("2024-01-01 x\n    a:b  " + h + "\n    c:d\n"))
		f.Add([]byte("2024-01-01 " + h + "\n    a:b  1 EUR\n"))
	}
	f.Add([]byte("2024-01-01 x\n    a:b  1E9999999\n    c:d\n"))
	f.Add([]byte("account a:b\ncommodity 1.000,00 EUR\ninclude x.journal\nP 2024-01-01 EUR 1.10 USD\nY 2024\nD $1,000.00\n"))
}

func fuzzFail(t *testing.T, data []byte, ds []ev.Discrepancy) {
	if len(ds) == 0 {
		return
	}
	if os.Getenv("VERIF_OUT") != "" {
		rec := ev.New("C06")
		rec.Fail("c06", newC06Case(string(data), 1), ds)
	}
	t.Fatalf("[%s] %s", ds[0].Assertion, ds[0].Detail)
}

func FuzzLexer(f *testing.F) {
	fuzzSeeds(f)
	f.Fuzz(func(t *testing.T, data []byte) {
		if len(data) > 65536 {
			return
		}
		fuzzFail(t, data, lexerInvariants(string(data)))
	})
}

func FuzzServer(f *testing.F) {
	fuzzSeeds(f)
	f.Fuzz(func(t *testing.T, data []byte) {
		if len(data) > 65536 {
			return
		}
		if wideGlobRe.Match(data) {
			return // open finding C06-F2, replayed separately
		}
		seed := 1
		if len(data) > 0 {
			seed = int(data[0])
		}
		fuzzFail(t, data, c06Check(newC06Case(string(data), seed)))
	})
}
