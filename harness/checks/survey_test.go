package checks

import (
	"fmt"
	"os"
	"sort"
	"strings"

	"github.com/juev/hledger-lsp/verifharness/ev"
)

// survey aggregates discrepancies over many cases (development aid: which
// assertion fails with which input features). Enabled with VERIF_SURVEY=1.
type survey struct {
	total     int
	bad       int
	featTotal map[string]int
	kinds     map[string]*surveyAgg
}

type surveyAgg struct {
	n    int
	ex   []string
	feat map[string]int
}

func newSurvey() *survey { return &survey{featTotal: map[string]int{}, kinds: map[string]*surveyAgg{}} }

func surveyOn() bool { return os.Getenv("VERIF_SURVEY") != "" }

func (s *survey) add(feats []string, ds []ev.Discrepancy) {
	s.total++
	for _, f := range feats {
		s.featTotal[f]++
	}
	if len(ds) == 0 {
		return
	}
	s.bad++
	seen := map[string]bool{}
	for _, d := range ds {
		if seen[d.Assertion] {
			continue
		}
		seen[d.Assertion] = true
		a := s.kinds[d.Assertion]
		if a == nil {
			a = &surveyAgg{feat: map[string]int{}}
			s.kinds[d.Assertion] = a
		}
		a.n++
		if len(a.ex) < 3 {
			a.ex = append(a.ex, d.Detail)
		}
		fs := d.Features
		if fs == nil {
			fs = feats
		}
		for _, f := range fs {
			a.feat[f]++
		}
	}
}

func (s *survey) print() {
	fmt.Printf("survey: total=%d bad=%d\n", s.total, s.bad)
	var ks []string
	for k := range s.kinds {
		ks = append(ks, k)
	}
	sort.Strings(ks)
	for _, k := range ks {
		a := s.kinds[k]
		fmt.Printf("== %s: %d\n", k, a.n)
		type fl struct {
			f    string
			lift float64
			pct  int
		}
		var fs []fl
		for f, c := range a.feat {
			base := float64(s.featTotal[f]) / float64(s.total)
			share := float64(c) / float64(a.n)
			if base > 0 {
				fs = append(fs, fl{f, share / base, int(100 * share)})
			}
		}
		sort.Slice(fs, func(i, j int) bool { return fs[i].lift > fs[j].lift })
		var top []string
		for i, x := range fs {
			if i >= 5 || x.lift < 1.3 {
				break
			}
			top = append(top, fmt.Sprintf("%s(%d%%,x%.1f)", x.f, x.pct, x.lift))
		}
		fmt.Println("    lift:", strings.Join(top, " "))
		for _, e := range a.ex {
			fmt.Printf("    ex: %.400s\n", e)
		}
	}
}
