package checks

import (
	"fmt"
	"os"
	"path/filepath"

	"github.com/juev/hledger-lsp/verifharness/gen"
	"github.com/juev/hledger-lsp/verifharness/lspx"
	m "github.com/juev/hledger-lsp/verifharness/model"
)

// wsEnv is a generated workspace written to disk with a server on top.
type wsEnv struct {
	Dir   string
	WS    *gen.Workspace
	Disk  []*m.Rendered
	Paths []string
	URIs  []string
	H     *lspx.Harness
}

var wsSeq int

// newWSEnv writes the workspace files and starts a server (with the directory
// as workspace root when root is true). The caller must call Cleanup.
func newWSEnv(ws *gen.Workspace, root bool, opts lspx.Options) (*wsEnv, error) {
	wsSeq++
	dir := filepath.Join(scratch(), fmt.Sprintf("ws-%d", wsSeq))
	_ = os.MkdirAll(filepath.Join(dir, "sub"), 0o755)
	e := &wsEnv{Dir: dir, WS: ws}
	for _, f := range ws.Files {
		r := m.Render(f.Journal)
		p := filepath.Join(dir, f.Rel)
		e.Disk = append(e.Disk, r)
		e.Paths = append(e.Paths, p)
		e.URIs = append(e.URIs, "file://"+p)
		if err := os.WriteFile(p, []byte(r.Text), 0o644); err != nil {
			return nil, err
		}
	}
	if root {
		opts.RootDir = dir
	}
	h, err := lspx.New(opts)
	if err != nil {
		os.RemoveAll(dir)
		return nil, err
	}
	e.H = h
	return e, nil
}

func (e *wsEnv) Cleanup() {
	if e.H != nil {
		_ = e.H.Quiesce()
	}
	os.RemoveAll(e.Dir)
}

// scopeOf returns the file indices in scope for a request from file `from`.
func (e *wsEnv) scopeOf(from int, root bool) []int {
	if root {
		return e.WS.Reachable(0)
	}
	return e.WS.Reachable(from)
}
