// Package ev collects what a check run actually covered (counters, distinct
// non-trivial case hashes, class histogram, samples) and records failing cases.
// Output goes to the directory named by VERIF_OUT; the driver merges shards.
package ev

import (
	"encoding/binary"
	"encoding/json"
	"fmt"
	"hash/fnv"
	"os"
	"path/filepath"
	"sort"
	"sync"
)

// Discrepancy is one way in which the code under test disagreed with the oracle.
type Discrepancy struct {
	Assertion string   `json:"assertion"`          // stable name of the violated clause
	Features  []string `json:"features,omitempty"` // features of the input locus (computed from the input, not from the failure)
	Detail    string   `json:"detail"`
}

func D(assertion, format string, a ...any) Discrepancy {
	return Discrepancy{Assertion: assertion, Detail: fmt.Sprintf(format, a...)}
}

type Recorder struct {
	mu         sync.Mutex
	ID         string
	evals      int64
	nontrivial int64
	hashes     map[uint64]struct{}
	classes    map[string]int64
	excluded   map[string]int64
	counters   map[string]int64
	samples    []any
	MaxSamples int
	extra      map[string]any
	failSize   int
	failed     bool
}

func New(id string) *Recorder {
	return &Recorder{ID: id, hashes: map[uint64]struct{}{}, classes: map[string]int64{}, excluded: map[string]int64{},
		counters: map[string]int64{}, extra: map[string]any{}, MaxSamples: 5, failSize: -1}
}

func Hash(b []byte) uint64 {
	h := fnv.New64a()
	h.Write(b)
	return h.Sum64()
}

// Case records one executed case. key is a canonical encoding of the case; it
// is hashed for the distinct count when nontrivial is true.
func (r *Recorder) Case(nontrivial bool, key []byte, classes ...string) {
	r.mu.Lock()
	defer r.mu.Unlock()
	r.evals++
	if nontrivial {
		r.nontrivial++
		r.hashes[Hash(key)] = struct{}{}
	}
	for _, c := range classes {
		r.classes[c]++
	}
}

func (r *Recorder) Class(c string)          { r.mu.Lock(); r.classes[c]++; r.mu.Unlock() }
func (r *Recorder) Excluded(c string)       { r.mu.Lock(); r.excluded[c]++; r.mu.Unlock() }
func (r *Recorder) Count(c string, n int64) { r.mu.Lock(); r.counters[c] += n; r.mu.Unlock() }
func (r *Recorder) Set(k string, v any)     { r.mu.Lock(); r.extra[k] = v; r.mu.Unlock() }
func (r *Recorder) Evals() int64            { r.mu.Lock(); defer r.mu.Unlock(); return r.evals }
func (r *Recorder) Sample(v any) {
	r.mu.Lock()
	defer r.mu.Unlock()
	if len(r.samples) < r.MaxSamples {
		r.samples = append(r.samples, v)
	}
}
func (r *Recorder) WantSample() bool {
	r.mu.Lock()
	defer r.mu.Unlock()
	return len(r.samples) < r.MaxSamples
}

func outDir() string {
	d := os.Getenv("VERIF_OUT")
	if d == "" {
		d = os.TempDir()
	}
	return d
}

// Fail stores a failing case (the smallest seen so far wins, ties go to the
// latest, so after rapid's shrinking the file holds the minimal case).
func (r *Recorder) Fail(check string, c any, ds []Discrepancy) {
	r.mu.Lock()
	defer r.mu.Unlock()
	r.failed = true
	cb, err := json.Marshal(c)
	if err != nil {
		cb = []byte(fmt.Sprintf("%q", fmt.Sprint(c)))
	}
	if r.failSize >= 0 && len(cb) > r.failSize {
		return
	}
	r.failSize = len(cb)
	doc := map[string]any{"property": r.ID, "check": check, "case": json.RawMessage(cb), "expect": "pass", "discrepancies": ds}
	b, _ := json.MarshalIndent(doc, "", " ")
	_ = os.WriteFile(filepath.Join(outDir(), "failure.json"), b, 0o644)
}

// Flush writes stats.json and hashes.bin.
func (r *Recorder) Flush() {
	r.mu.Lock()
	defer r.mu.Unlock()
	st := map[string]any{
		"property": r.ID, "evaluations": r.evals, "nontrivial": r.nontrivial, "distinct_nontrivial_shard": len(r.hashes),
		"classes": r.classes, "excluded": r.excluded, "counters": r.counters, "samples": r.samples, "extra": r.extra, "failed": r.failed,
	}
	b, _ := json.MarshalIndent(st, "", " ")
	_ = os.WriteFile(filepath.Join(outDir(), "stats.json"), b, 0o644)
	hs := make([]uint64, 0, len(r.hashes))
	for h := range r.hashes {
		hs = append(hs, h)
	}
	sort.Slice(hs, func(i, j int) bool { return hs[i] < hs[j] })
	buf := make([]byte, 8*len(hs))
	for i, h := range hs {
		binary.LittleEndian.PutUint64(buf[8*i:], h)
	}
	_ = os.WriteFile(filepath.Join(outDir(), "hashes.bin"), buf, 0o644)
}
