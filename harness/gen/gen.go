// Package gen holds the rapid generators for grammar G (DESIGN.md 4.2-4.4).
// Every random choice is drawn through rapid so failures shrink and replay.
// Features listed in a Profile are switched off by construction, never by
// filtering.
package gen

import (
	"strings"

	"pgregory.net/rapid"

	m "github.com/juev/hledger-lsp/verifharness/model"
)

type Profile struct {
	Off      func(feature string) bool
	Excluded func(feature string)
}

func (p *Profile) off(f string) bool {
	if p == nil || p.Off == nil {
		return false
	}
	if p.Off(f) {
		if p.Excluded != nil {
			p.Excluded(f)
		}
		return true
	}
	return false
}

// Pools are the names shared across a journal (and across the files of a workspace).
type Pools struct {
	Accounts []string
	Syms     []string // "" = no commodity
	Payees   []string
	TagNames []string
}

var topSegs = []string{"assets", "expenses", "petty cash", "checking", "income", "liabilities", "equity", "Assets", "Expenses", "misc", "x", "активы", "projects"}
var subSegs = []string{"cash", "food", "bank checking", "card1", "чек", "наличные", "opening balances", "Salary", "a", "B2", "y😀z", "rent", "café", "long account segment name", "2024", "bank 2", "acct-1"}
var symPool = []string{"$", "€", "EUR", "USD", "AAPL", "AB C", "ACME Inc.", "£", "🍎 X", "ЕВРО", "H2O", "VTI2"}
var payeePool = []string{"shop", "Whole Foods", "café", "Ашан", "grocery store", "x", "landlord", "bakery 😀"}
var tagPool = []string{"k", "trip", "Project-1", "a_b", "type"}
var tagVals = []string{"", "v", "two words", "2024-01-02", "é😀", "x1"}

func GenAccount(t *rapid.T) string {
	n := rapid.SampledFrom([]int{2, 2, 2, 3, 4}).Draw(t, "nseg")
	segs := []string{rapid.SampledFrom(topSegs).Draw(t, "top")}
	for i := 1; i < n; i++ {
		segs = append(segs, rapid.SampledFrom(subSegs).Draw(t, "seg"))
	}
	return strings.Join(segs, ":")
}

func GenPools(t *rapid.T, p *Profile) *Pools {
	pl := &Pools{}
	na := rapid.IntRange(2, 6).Draw(t, "naccounts")
	seen := map[string]bool{}
	for len(pl.Accounts) < na {
		a := GenAccount(t)
		if p.off("text.nonbmp") && strings.Contains(a, "😀") {
			a = strings.ReplaceAll(a, "😀", "w")
		}
		if p.off("text.nonascii") {
			a = asciiOnly(a)
		}
		if seen[a] {
			a += "2"
		}
		if seen[a] {
			continue
		}
		seen[a] = true
		pl.Accounts = append(pl.Accounts, a)
	}
	ns := rapid.IntRange(1, 3).Draw(t, "nsyms")
	pool := symPool
	if p.off("commodity.quoted") {
		pool = nil
		for _, s := range symPool {
			if !m.NeedsQuote(s) {
				pool = append(pool, s)
			}
		}
	}
	if p.off("text.nonascii") || p.off("text.nonbmp") {
		var q []string
		for _, s := range pool {
			if asciiOnly(s) == s || (!p.off("text.nonascii") && !strings.Contains(s, "🍎")) {
				q = append(q, s)
			}
		}
		pool = q
	}
	pl.Syms = rapid.SliceOfNDistinct(rapid.SampledFrom(pool), ns, ns, func(s string) string { return s }).Draw(t, "syms")
	np := rapid.IntRange(1, 4).Draw(t, "npayees")
	pl.Payees = rapid.SliceOfNDistinct(rapid.SampledFrom(payeePool), np, np, func(s string) string { return s }).Draw(t, "payees")
	if p.off("text.nonbmp") || p.off("text.nonascii") {
		for i, s := range pl.Payees {
			s = strings.ReplaceAll(s, "😀", "w")
			if p.off("text.nonascii") {
				s = asciiOnly(s)
			}
			pl.Payees[i] = s
		}
	}
	nt := rapid.IntRange(1, 3).Draw(t, "ntags")
	pl.TagNames = rapid.SliceOfNDistinct(rapid.SampledFrom(tagPool), nt, nt, func(s string) string { return s }).Draw(t, "tags")
	return pl
}

func asciiOnly(s string) string {
	var sb strings.Builder
	for _, r := range s {
		if r < 128 {
			sb.WriteRune(r)
		} else {
			sb.WriteByte('u')
		}
	}
	return sb.String()
}

func GenNum(t *rapid.T, maxScale, maxDigits int) m.Num {
	scale := rapid.IntRange(0, maxScale).Draw(t, "scale")
	nd := rapid.IntRange(1, maxDigits).Draw(t, "ndigits")
	var sb strings.Builder
	for i := 0; i < nd; i++ {
		lo := 0
		if i == 0 && nd > 1 {
			lo = 1
		}
		sb.WriteByte(byte('0' + rapid.IntRange(lo, 9).Draw(t, "d")))
	}
	return m.Num{Neg: rapid.Bool().Draw(t, "neg"), Mant: sb.String(), Scale: scale}
}

func GenStyle(t *rapid.T, p *Profile) m.NumStyle {
	st := m.NumStyle{Dec: "."}
	if rapid.IntRange(0, 2).Draw(t, "commadec") == 0 && !p.off("num.comma-dec") {
		st.Dec = ","
	}
	switch rapid.IntRange(0, 5).Draw(t, "group") {
	case 0:
		if !p.off("num.group") {
			if st.Dec == "." {
				st.Group = ","
			} else {
				st.Group = "."
			}
		}
	case 1:
		if !p.off("num.group") && !p.off("num.group-space") {
			st.Group = " "
		}
	}
	st.Trailing = rapid.IntRange(0, 5).Draw(t, "trail") == 0 && !p.off("num.trailing")
	if rapid.IntRange(0, 5).Draw(t, "exp") == 0 && !p.off("num.exp") {
		st.Exp = rapid.SampledFrom([]int{-3, -2, -1, 1, 2, 3}).Draw(t, "expv")
		st.ExpForm = rapid.IntRange(0, 2).Draw(t, "expform")
		st.Trim = rapid.Bool().Draw(t, "trim")
	}
	st.Plus = rapid.IntRange(0, 7).Draw(t, "plus") == 0 && !p.off("num.plus")
	return st
}

// fixStyle removes style choices whose rendering would carry a disabled number feature.
func fixStyle(p *Profile, q m.Num, st m.NumStyle) m.NumStyle {
	for i := 0; i < 3; i++ {
		f := m.Feats{}
		m.RenderNum(q, st, f)
		switch {
		case f["num.exp-3chars"] && p.off("num.exp-3chars"):
			st.Exp = 0
		case f["num.space-group-3dec"] && p.off("num.space-group-3dec"):
			st.Group = ""
		default:
			return st
		}
	}
	return st
}

func GenAmount(t *rapid.T, p *Profile, sym string, maxScale, maxDigits int) *m.Amount {
	return GenAmountFor(t, p, sym, GenNum(t, maxScale, maxDigits))
}

// GenAmountFor draws a notation (style, sign and commodity placement) for a given quantity.
func GenAmountFor(t *rapid.T, p *Profile, sym string, q m.Num) *m.Amount {
	a := &m.Amount{Q: q, Sym: sym, Style: fixStyle(p, q, GenStyle(t, p))}
	if sym != "" {
		if m.IsCurrency(sym) {
			a.Left = rapid.IntRange(0, 3).Draw(t, "left") != 0
			a.SymSpace = a.Left && rapid.IntRange(0, 5).Draw(t, "cursp") == 0 && !p.off("commodity.currency-space")
		} else {
			a.Left = rapid.IntRange(0, 3).Draw(t, "left") == 0 && !p.off("commodity.left-code-space")
			a.SymSpace = true
			if a.Left && !m.NeedsQuote(sym) && !p.off("commodity.left-code-glued") && rapid.IntRange(0, 2).Draw(t, "glued") == 0 {
				a.SymSpace = false // USD5
			}
		}
		if a.Left && a.SymSpace && !p.off("commodity.tab-gap") && rapid.IntRange(0, 5).Draw(t, "symtab") == 0 {
			a.SymTab = true
		}
		if a.Left {
			a.SignBefore = rapid.Bool().Draw(t, "signbefore")
			if a.SignBefore {
				if p.off("sign.before-commodity") ||
					(m.NeedsQuote(sym) && p.off("sign.before-quoted")) ||
					(!m.IsCurrency(sym) && !m.NeedsQuote(sym) && a.SymSpace && p.off("sign.before-code-space")) {
					a.SignBefore = false
				}
			}
		}
	}
	return a
}

var descWords = []string{"shop", "Whole Foods", "café", "Ашан", "grocery store", "x"}

// GenDesc returns a description text and its class.
func GenDesc(t *rapid.T, p *Profile, pools *Pools) (string, string) {
	classes := []string{"plain", "plain", "plain", "mixed", "allcaps", "digit", "colon", "currency", "nonascii", "nonbmp", "symbol"}
	var ok []string
	for _, c := range classes {
		if c == "plain" || !p.off("descr."+c) {
			if (c == "nonascii" && p.off("text.nonascii")) || (c == "nonbmp" && (p.off("text.nonbmp") || p.off("text.nonascii"))) {
				continue
			}
			ok = append(ok, c)
		}
	}
	cls := rapid.SampledFrom(ok).Draw(t, "dclass")
	w := rapid.SampledFrom(pools.Payees).Draw(t, "dword")
	switch cls {
	case "mixed":
		return "Mixed Case " + w, cls
	case "allcaps":
		return rapid.SampledFrom([]string{"ATM", "A", "IKEA", "USD"}).Draw(t, "caps") + " " + w, cls
	case "digit":
		return rapid.SampledFrom([]string{"7eleven", "24h shop", "3 items", "2024 summary"}).Draw(t, "dig") + " " + w, cls
	case "colon":
		return w + rapid.SampledFrom([]string{": January", " a:b", ":x"}).Draw(t, "col"), cls
	case "currency":
		return w + rapid.SampledFrom([]string{" $5 refund", " 10 EUR", " €"}).Draw(t, "cur"), cls
	case "symbol":
		return rapid.SampledFrom([]string{"$5 back", "-discount", "+bonus", "[misc]", "\"quoted\" name", "@home", "#42", "~approx", "100% cotton", "a.b.c", "€uro"}).Draw(t, "symw") + " " + w, cls
	case "nonascii":
		return rapid.SampledFrom([]string{"Ünïcode", "Ашан", "中文"}).Draw(t, "na") + " " + w, cls
	case "nonbmp":
		return "😀 " + w, cls
	}
	return w, cls
}

func GenComment(t *rapid.T, p *Profile, pools *Pools, allowTags bool) *m.Comment {
	n := rapid.IntRange(1, 3).Draw(t, "nitems")
	c := &m.Comment{Lead: rapid.SampledFrom([]string{" ", "", "  "}).Draw(t, "lead")}
	if !p.off("comment.empty") && rapid.IntRange(0, 11).Draw(t, "emptycomment") == 0 {
		// a comment mark with nothing, or only blanks, behind it
		return c
	}
	texts := []string{"note", "some text", "é 😀", "x y z"}
	if p.off("text.nonascii") || p.off("text.nonbmp") {
		texts = []string{"note", "some text", "x y z"}
	}
	if !p.off("comment.spaced-colon") {
		texts = append(texts, "lunch : pizza") // a colon that is attached to no word makes no tag
	}
	vals := tagVals
	if p.off("text.nonascii") || p.off("text.nonbmp") {
		vals = []string{"", "v", "two words", "2024-01-02", "x1"}
	}
	for i := 0; i < n; i++ {
		if allowTags && rapid.Bool().Draw(t, "istag") {
			it := m.CItem{Tag: true, Name: rapid.SampledFrom(pools.TagNames).Draw(t, "tn"), Value: rapid.SampledFrom(vals).Draw(t, "tv")}
			if !p.off("tag.text-before") && rapid.IntRange(0, 4).Draw(t, "tagpre") == 0 {
				it.Pre = rapid.SampledFrom([]string{"paid by card ", "see ", "x ", "%s plan ", "x%ss and ", "%s "}).Draw(t, "tagprev")
				// the text before a tag may spell the tag's name without being the tag
				it.Pre = strings.Replace(it.Pre, "%s", it.Name, 1)
			}
			c.Items = append(c.Items, it)
		} else {
			c.Items = append(c.Items, m.CItem{Text: rapid.SampledFrom(texts).Draw(t, "ct")})
		}
	}
	for i := range c.Items {
		if c.Items[i].Tag && c.Items[i].Value != "" && !p.off("tag.blank-before-value") && rapid.IntRange(0, 3).Draw(t, "vsep") == 0 {
			c.Items[i].VSep = rapid.SampledFrom([]string{" ", "  "}).Draw(t, "vsepv")
		}
	}
	// a tag value runs to the next comma, so it may itself contain the "name:" of a later tag
	if !p.off("tag.value-names-later-tag") {
		for i := 0; i < len(c.Items); i++ {
			for j := i + 1; j < len(c.Items); j++ {
				if c.Items[i].Tag && c.Items[j].Tag && rapid.IntRange(0, 3).Draw(t, "valnames") == 0 {
					c.Items[i].Value = rapid.SampledFrom([]string{"see %s:7", "%s://x.org/a", "%s:"}).Draw(t, "valform")
					c.Items[i].Value = strings.Replace(c.Items[i].Value, "%s", c.Items[j].Name, 1)
				}
			}
		}
	}
	return c
}

func GenDate(t *rapid.T, partialOK bool, defaultYear int) m.Date {
	d := m.Date{Y: rapid.IntRange(1990, 2030).Draw(t, "y"), M: rapid.IntRange(1, 12).Draw(t, "m"), D: rapid.IntRange(1, 28).Draw(t, "d"),
		Sep: rapid.SampledFrom([]string{"-", "/", "."}).Draw(t, "sep"), Pad: rapid.Bool().Draw(t, "pad")}
	if partialOK && rapid.IntRange(0, 2).Draw(t, "partial") == 0 {
		d.Partial = true
		d.Y = defaultYear
	}
	return d
}

type TxOpts struct {
	MaxPostings int
	MaxScale    int
	MaxDigits   int
	DefaultYear int // 0 = no Y directive before: no partial dates
}

func GenPosting(t *rapid.T, p *Profile, pools *Pools, o TxOpts) *m.Posting {
	po := &m.Posting{
		Status:  rapid.SampledFrom([]int{0, 0, 0, 0, 1, 2}).Draw(t, "pst"),
		Kind:    rapid.SampledFrom([]int{0, 0, 0, 0, 1, 2}).Draw(t, "kind"),
		Account: rapid.SampledFrom(pools.Accounts).Draw(t, "acct"),
		Indent:  rapid.SampledFrom([]string{"    ", "  ", " ", "\t", "        ", "   "}).Draw(t, "indent"),
		Sep:     rapid.SampledFrom([]string{"  ", "   ", "      ", "            ", "\t"}).Draw(t, "sep"),
		CSep:    rapid.SampledFrom([]string{"  ", "   ", " "}).Draw(t, "csep"),
	}
	if po.Status != 0 && p.off("posting.status") {
		po.Status = 0
	}
	if po.Kind == 1 && p.off("posting.virtual-balanced") {
		po.Kind = 0
	}
	if po.Kind == 2 && p.off("posting.virtual-unbalanced") {
		po.Kind = 0
	}
	if po.Indent == "\t" && p.off("indent.tab") {
		po.Indent = "    "
	}
	if po.Sep == "\t" && p.off("sep.tab") {
		po.Sep = "  "
	}
	if rapid.IntRange(0, 4).Draw(t, "hasamt") != 0 {
		sym := rapid.SampledFrom(pools.Syms).Draw(t, "sym")
		if rapid.IntRange(0, 9).Draw(t, "nosym") == 0 && !p.off("commodity.none") {
			sym = ""
		}
		po.Amt = GenAmount(t, p, sym, o.MaxScale, o.MaxDigits)
		if rapid.IntRange(0, 4).Draw(t, "hascost") == 0 && !p.off("posting.cost") {
			cs := rapid.SampledFrom(pools.Syms).Draw(t, "csym")
			if cs != sym && cs != "" {
				ca := GenAmount(t, p, cs, 3, 6)
				ca.Q.Neg = false
				ca.Style.Plus = false
				if ca.Q.IsZero() {
					ca.Q.Mant = "1"
				}
				po.Cost = &m.Cost{Total: rapid.Bool().Draw(t, "total"), A: *ca}
			}
		}
		if rapid.IntRange(0, 5).Draw(t, "hasassert") == 0 && !p.off("posting.assert") {
			aa := GenAmount(t, p, sym, 3, 6)
			po.Assert = &m.Assert{Strict: rapid.Bool().Draw(t, "strict"), A: *aa, SpBefore: rapid.IntRange(1, 3).Draw(t, "spb"), SpAfter: rapid.IntRange(0, 2).Draw(t, "spa")}
		}
	}
	if po.Amt == nil && rapid.IntRange(0, 5).Draw(t, "assertonly") == 0 && !p.off("posting.assert") && !p.off("posting.assert-no-amount") {
		sym := rapid.SampledFrom(pools.Syms).Draw(t, "asym")
		aa := GenAmount(t, p, sym, 3, 6)
		po.Assert = &m.Assert{Strict: rapid.Bool().Draw(t, "astrict"), A: *aa, SpBefore: 2, SpAfter: rapid.IntRange(0, 2).Draw(t, "aspa")}
	}
	if rapid.IntRange(0, 3).Draw(t, "hascomment") == 0 && !p.off("posting.comment") {
		po.Comment = GenComment(t, p, pools, true)
		if po.Amt == nil && len(po.CSep) < 2 {
			po.CSep = "  " // an account is ended by two blanks
		}
	}
	if !p.off("line.trailing-blanks") && rapid.IntRange(0, 5).Draw(t, "ptrail") == 0 {
		po.Trail = rapid.SampledFrom([]string{" ", "  ", "\t", "   "}).Draw(t, "ptrailv")
	}
	return po
}

func GenTx(t *rapid.T, p *Profile, pools *Pools, o TxOpts) *m.Tx {
	tx := &m.Tx{Date: GenDate(t, o.DefaultYear != 0 && !p.off("date.partial"), o.DefaultYear), Status: rapid.SampledFrom([]int{0, 0, 1, 2}).Draw(t, "st")}
	if tx.Status != 0 && p.off("tx.status") {
		tx.Status = 0
	}
	if rapid.IntRange(0, 4).Draw(t, "hasd2") == 0 && !p.off("tx.date2") {
		// a secondary date without year takes the year of the primary date, with or without a Y directive
		d2 := GenDate(t, !p.off("date2.partial"), tx.Date.Y)
		d2.Sep = tx.Date.Sep
		tx.Date2 = &d2
	}
	if rapid.IntRange(0, 3).Draw(t, "hascode") == 0 && !p.off("tx.code") {
		codes := []string{"123", "INV 1", "c-é", "A", "#42", "a:b", "2024-01-01", "x; y"}
		if p.off("text.nonascii") {
			codes = []string{"123", "INV 1", "A", "#42", "a:b", "2024-01-01", "x; y"}
		}
		c := rapid.SampledFrom(codes).Draw(t, "code")
		tx.Code = &c
	}
	if rapid.IntRange(0, 9).Draw(t, "nodesc") == 0 && !p.off("tx.nodesc") {
		tx.NoDesc = true
	} else {
		tx.Payee, tx.DescClass = GenDesc(t, p, pools)
		if !p.off("descr.lead-blanks") && rapid.IntRange(0, 7).Draw(t, "dsep") == 0 {
			seps := []string{"  ", "\t", " \t "}
			if !p.off("descr.lead-unicode-blank") && !p.off("text.nonascii") {
				seps = append(seps, " \u00a0", " \u3000", " \u3000 ")
			}
			tx.DSep = rapid.SampledFrom(seps).Draw(t, "dsepv")
		}
		if rapid.IntRange(0, 3).Draw(t, "hasnote") == 0 && !p.off("tx.pipe") {
			tx.HasNote = true
			notes := []string{"weekly", "note é", "", "2 items", "Rent: May"}
			if !p.off("note.pipe") {
				notes = append(notes, "milk | eggs", "a || b")
			}
			var ok []string
			for _, n := range notes {
				if n != "" && n[0] >= '0' && n[0] <= '9' && p.off("note.digit") {
					continue
				}
				if strings.Contains(n, ":") && p.off("descr.colon") {
					continue
				}
				if asciiOnly(n) != n && p.off("text.nonascii") {
					continue
				}
				ok = append(ok, n)
			}
			tx.Note = rapid.SampledFrom(ok).Draw(t, "note")
		}
	}
	if rapid.IntRange(0, 3).Draw(t, "hashc") == 0 && !p.off("tx.header-comment") {
		tx.HC = GenComment(t, p, pools, true)
		tx.HCSep = rapid.SampledFrom([]string{"  ", " ", "   "}).Draw(t, "hcsep")
	}
	np := rapid.IntRange(0, o.MaxPostings).Draw(t, "np")
	for i := 0; i < np; i++ {
		if rapid.IntRange(0, 6).Draw(t, "cline") == 0 && !p.off("comment.indented") {
			tx.Body = append(tx.Body, m.BodyItem{C: GenComment(t, p, pools, !p.off("comment.indented-tag")), Indent: rapid.SampledFrom([]string{"    ", "  "}).Draw(t, "cind")})
		}
		tx.Body = append(tx.Body, m.BodyItem{P: GenPosting(t, p, pools, o)})
	}
	if rapid.IntRange(0, 6).Draw(t, "clast") == 0 && !p.off("comment.indented") && !p.off("comment.indented-last") {
		// a comment line closing the transaction
		tx.Body = append(tx.Body, m.BodyItem{C: GenComment(t, p, pools, !p.off("comment.indented-tag")), Indent: rapid.SampledFrom([]string{"    ", "  "}).Draw(t, "cindl")})
	}
	if !p.off("line.trailing-blanks") && rapid.IntRange(0, 7).Draw(t, "htrail") == 0 {
		trails := []string{" ", "  ", "\t"}
		if tx.HC == nil && !tx.NoDesc && !p.off("descr.trail-unicode-blank") && !p.off("text.nonascii") {
			// the description is followed by a blank that is not ASCII; it is no part of the description
			trails = append(trails, "\u00a0", " \u3000", "\u3000 ")
		}
		tx.Trail = rapid.SampledFrom(trails).Draw(t, "htrailv")
	}
	return tx
}

func GenFmt(t *rapid.T, p *Profile, sym string) *m.Fmt {
	f := &m.Fmt{Sym: sym, Dec: rapid.SampledFrom([]string{".", ".", ","}).Draw(t, "fdec"), Decimals: rapid.IntRange(0, 8).Draw(t, "fdecimals")}
	switch rapid.IntRange(0, 3).Draw(t, "fgroup") {
	case 0:
		if f.Dec == "." {
			f.Group = ","
		} else {
			f.Group = "."
		}
	case 1:
		f.Group = " "
	}
	if m.IsCurrency(sym) {
		f.Left = rapid.IntRange(0, 3).Draw(t, "fleft") != 0
	} else {
		f.Left = rapid.IntRange(0, 3).Draw(t, "fleft") == 0
		f.Space = true
	}
	return f
}

type JournalOpts struct {
	MinEntries, MaxEntries int
	Tx                     TxOpts
	Directives             bool
	TopComments            bool
	NoIncludes             bool
	TxOnly                 bool
}

// GenJournal draws a journal from G.
func GenJournal(t *rapid.T, p *Profile, pools *Pools, o JournalOpts) *m.Journal {
	j := &m.Journal{NL: "\n"}
	if rapid.IntRange(0, 3).Draw(t, "crlf") == 0 && !p.off("eol.crlf") {
		j.NL = "\r\n"
	}
	n := rapid.IntRange(o.MinEntries, o.MaxEntries).Draw(t, "nentries")
	year := 0
	for i := 0; i < n; i++ {
		var e m.Entry
		k := rapid.IntRange(0, 9).Draw(t, "ekind")
		switch {
		case k == 0 && o.TopComments && !o.TxOnly:
			s := rapid.SampledFrom([]string{" a comment", "", " k:v in a top comment", " é"}).Draw(t, "tc")
			if p.off("text.nonascii") {
				s = asciiOnly(s)
			}
			e.CommentLine = &s
		case k <= 3 && o.Directives && !o.TxOnly:
			e.Dir = GenDirective(t, p, pools, &year, o)
		default:
			to := o.Tx
			to.DefaultYear = year
			e.Tx = GenTx(t, p, pools, to)
		}
		e.Blank = rapid.SampledFrom([]int{1, 1, 1, 0, 2}).Draw(t, "blank")
		if p.off("entries.adjacent") && e.Blank == 0 {
			e.Blank = 1
		}
		j.Entries = append(j.Entries, e)
	}
	return j
}

func GenDirective(t *rapid.T, p *Profile, pools *Pools, year *int, o JournalOpts) *m.Directive {
	kinds := []string{"account", "account", "commodity", "commodity-sub", "commodity-nofmt", "P", "Y", "D"}
	if !o.NoIncludes {
		kinds = append(kinds, "include")
	}
	k := rapid.SampledFrom(kinds).Draw(t, "dkind")
	if p.off("dir." + k) {
		k = "account"
	}
	switch k {
	case "account":
		d := &m.Directive{Kind: "account", Account: rapid.SampledFrom(pools.Accounts).Draw(t, "dacct")}
		if rapid.IntRange(0, 3).Draw(t, "dcomment") == 0 && !p.off("dir.account-comment") {
			d.Comment = GenComment(t, p, pools, true)
			d.CSep = rapid.SampledFrom([]string{"  ", "   "}).Draw(t, "dcsep")
		}
		return d
	case "commodity":
		return &m.Directive{Kind: "commodity", Fmt: GenFmt(t, p, rapid.SampledFrom(pools.Syms).Draw(t, "dsym"))}
	case "commodity-sub":
		d := &m.Directive{Kind: "commodity-sub", Fmt: GenFmt(t, p, rapid.SampledFrom(pools.Syms).Draw(t, "dsym")), Indent: rapid.SampledFrom([]string{"  ", "    "}).Draw(t, "dind")}
		if !p.off("dir.subdirective-tab") && rapid.IntRange(0, 4).Draw(t, "subsep") == 0 {
			d.SubSep = rapid.SampledFrom([]string{"\t", "  "}).Draw(t, "subsepv")
		}
		if !p.off("dir.subdirective-note") && rapid.IntRange(0, 4).Draw(t, "subnote") == 0 {
			d.SubNote = rapid.SampledFrom([]string{"note the usual one", "note a remark  ; with a comment", "; only a comment"}).Draw(t, "subnotev")
		}
		return d
	case "commodity-nofmt":
		return &m.Directive{Kind: "commodity", Sym: rapid.SampledFrom(pools.Syms).Draw(t, "dsym")}
	case "include":
		paths := []string{"other.journal", "sub/2024.journal", "./x.journal", "/abs/path/file.journal", "~/home.journal", "*.journal", "sub/**/*.journal", "f[12]?.journal", "dir with space/a.journal", "2024 budget.journal", "01 Jan.journal", "MY FILES/x.journal", "A 1.journal"}
		if !p.off("text.nonascii") {
			paths = append(paths, "журнал.journal", "Buchführung/2024.journal", "é.journal")
			if !p.off("text.nonbmp") {
				paths = append(paths, "😀/a.journal")
			}
		}
		// a word of the path may open a bracket or a quote that nothing closes
		paths = append(paths, "2023 (old.journal", "(archive/x.journal", "old \"2023.journal")
		d := &m.Directive{Kind: "include", Path: rapid.SampledFrom(paths).Draw(t, "ipath")}
		switch rapid.IntRange(0, 5).Draw(t, "itrail") {
		case 0:
			d.CSep = rapid.SampledFrom([]string{"  ", " ", "\t"}).Draw(t, "itrailblanks")
		case 1:
			d.CSep = rapid.SampledFrom([]string{"  ", "   "}).Draw(t, "icsep")
			d.Comment = &m.Comment{Lead: " ", Items: []m.CItem{{Text: "the books of that year"}}}
		}
		return d
	case "P":
		syms := pools.Syms
		s1 := rapid.SampledFrom(syms).Draw(t, "psym")
		s2 := rapid.SampledFrom(syms).Draw(t, "psym2")
		d := GenDate(t, false, 0)
		pr := GenAmount(t, p, s2, 4, 6)
		pr.Q.Neg = false
		pr.Style.Plus = false
		return &m.Directive{Kind: "P", Sym: s1, Date: &d, Price: pr}
	case "Y":
		y := rapid.IntRange(1990, 2030).Draw(t, "year")
		*year = y
		return &m.Directive{Kind: rapid.SampledFrom([]string{"Y", "year"}).Draw(t, "ykw"), Year: y}
	default:
		return &m.Directive{Kind: "D", Fmt: GenFmt(t, p, rapid.SampledFrom(pools.Syms).Draw(t, "dsym"))}
	}
}

// ---------- workspaces (DESIGN.md 4.4) ----------

var WSNames = []string{"main.journal", "a.journal", "b.journal", "sub/c.journal", "sub/d.journal"}

type WSFile struct {
	Rel     string     `json:"rel"`
	Journal *m.Journal `json:"journal"`
}

type Workspace struct {
	Files    []WSFile `json:"files"`
	Includes [][]int  `json:"includes"` // Includes[i]: indices of the files that file i includes, in textual order
}

type WSOpts struct {
	MinFiles, MaxFiles int
	Journal            JournalOpts
	AllReachable       bool // every file is reachable from main.journal
	Islands            bool // sometimes main.journal includes nothing while the other files form a tree of their own
}

// RelFrom is the include path that names file to (relative to the workspace) in file from.
func RelFrom(from, to string) string { return relFrom(from, to) }

func relFrom(from, to string) string {
	fd, td := "", ""
	if i := strings.LastIndex(from, "/"); i >= 0 {
		fd = from[:i]
	}
	if i := strings.LastIndex(to, "/"); i >= 0 {
		td = to[:i]
	}
	base := to[strings.LastIndex(to, "/")+1:]
	switch {
	case fd == td:
		return base
	case fd == "":
		return to
	case td == "":
		return "../" + base
	default:
		return "../" + to
	}
}

// GenWorkspace draws 1..n journals connected by include directives (an acyclic
// graph rooted at main.journal, possibly with diamonds and unreachable siblings).
func GenWorkspace(t *rapid.T, p *Profile, pools *Pools, o WSOpts) *Workspace {
	n := rapid.IntRange(o.MinFiles, o.MaxFiles).Draw(t, "nfiles")
	ws := &Workspace{Includes: make([][]int, n)}
	jo := o.Journal
	jo.NoIncludes = true
	for i := 0; i < n; i++ {
		ws.Files = append(ws.Files, WSFile{Rel: WSNames[i], Journal: GenJournal(t, p, pools, jo)})
	}
	island := o.Islands && n >= 3 && rapid.IntRange(0, 3).Draw(t, "island") == 0
	for j := 1; j < n; j++ {
		parents := 0
		for i := 0; i < j; i++ {
			if island && i == 0 {
				continue
			}
			pick := rapid.IntRange(0, 2).Draw(t, "edge") == 0
			if i == j-1 && parents == 0 && (o.AllReachable || rapid.IntRange(0, 3).Draw(t, "reach") != 0) {
				pick = true
			}
			if pick {
				ws.Includes[i] = append(ws.Includes[i], j)
				parents++
			}
		}
	}
	// place the include directives inside the including journal
	for i := 0; i < n; i++ {
		for _, j := range ws.Includes[i] {
			e := m.Entry{Dir: &m.Directive{Kind: "include", Path: relFrom(ws.Files[i].Rel, ws.Files[j].Rel)}, Blank: rapid.IntRange(0, 1).Draw(t, "iblank")}
			es := ws.Files[i].Journal.Entries
			at := 0
			if rapid.IntRange(0, 2).Draw(t, "iatend") == 0 {
				at = rapid.IntRange(0, len(es)).Draw(t, "iat")
			}
			// never separate a Y directive from the partial dates after it is fine; any position is valid
			es = append(es[:at:at], append([]m.Entry{e}, es[at:]...)...)
			ws.Files[i].Journal.Entries = es
		}
	}
	return ws
}

// Reachable returns the indices reachable from file root through includes (root included), in DFS preorder.
func (ws *Workspace) Reachable(root int) []int {
	seen := map[int]bool{}
	var order []int
	var visit func(i int)
	visit = func(i int) {
		if seen[i] {
			return
		}
		seen[i] = true
		order = append(order, i)
		// textual order of the include directives
		for _, e := range ws.Files[i].Journal.Entries {
			if e.Dir != nil && e.Dir.Kind == "include" {
				for j := range ws.Files {
					if relFrom(ws.Files[i].Rel, ws.Files[j].Rel) == e.Dir.Path {
						visit(j)
					}
				}
			}
		}
	}
	visit(root)
	return order
}

// GenFileWithIncludes draws a journal for file index fi of an n-file workspace
// whose include directives name an arbitrary subset of the files (self and
// cycles allowed).
func GenFileWithIncludes(t *rapid.T, p *Profile, pools *Pools, o JournalOpts, fi, n int) *m.Journal {
	k := rapid.IntRange(0, 3).Draw(t, "nincludes")
	var targets []int
	for i := 0; i < k; i++ {
		targets = append(targets, rapid.IntRange(0, n-1).Draw(t, "itarget"))
	}
	return GenFileIncluding(t, p, pools, o, fi, targets)
}

// GenFileIncluding draws a journal for file fi that includes exactly the given files, in that order.
func GenFileIncluding(t *rapid.T, p *Profile, pools *Pools, o JournalOpts, fi int, targets []int) *m.Journal {
	o.NoIncludes = true
	j := GenJournal(t, p, pools, o)
	at := 0
	for _, target := range targets {
		e := m.Entry{Dir: &m.Directive{Kind: "include", Path: relFrom(WSNames[fi], WSNames[target])}, Blank: rapid.IntRange(0, 1).Draw(t, "iblank")}
		at = rapid.IntRange(at, len(j.Entries)).Draw(t, "iat")
		j.Entries = append(j.Entries[:at:at], append([]m.Entry{e}, j.Entries[at:]...)...)
		at++
	}
	return j
}

// IncludeTargets lists the file indices a journal of file fi includes, in textual order.
func IncludeTargets(j *m.Journal, fi, n int) []int {
	var out []int
	for _, e := range j.Entries {
		if e.Dir != nil && e.Dir.Kind == "include" {
			for k := 0; k < n; k++ {
				if relFrom(WSNames[fi], WSNames[k]) == e.Dir.Path {
					out = append(out, k)
				}
			}
		}
	}
	return out
}
