module github.com/juev/hledger-lsp/verifharness

go 1.24

require (
	github.com/juev/hledger-lsp v0.0.0
	github.com/shopspring/decimal v1.4.0
	go.lsp.dev/protocol v0.12.0
	go.lsp.dev/uri v0.3.0
	pgregory.net/rapid v1.3.0
)

require github.com/bmatcuk/doublestar/v4 v4.9.2 // indirect

replace github.com/juev/hledger-lsp => /repo
