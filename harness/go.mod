module github.com/juev/hledger-lsp/verifharness

go 1.24

require (
	github.com/juev/hledger-lsp v0.0.0
	github.com/segmentio/encoding v0.3.4
	github.com/shopspring/decimal v1.4.0
	go.lsp.dev/protocol v0.12.0
	go.lsp.dev/uri v0.3.0
	pgregory.net/rapid v1.3.0
)

require (
	github.com/bmatcuk/doublestar/v4 v4.9.2 // indirect
	github.com/segmentio/asm v1.1.3 // indirect
	go.lsp.dev/jsonrpc2 v0.10.0 // indirect
	go.lsp.dev/pkg v0.0.0-20210717090340-384b27a52fb2 // indirect
	go.uber.org/atomic v1.9.0 // indirect
	go.uber.org/multierr v1.8.0 // indirect
	go.uber.org/zap v1.21.0 // indirect
	golang.org/x/sys v0.1.0 // indirect
)

replace github.com/juev/hledger-lsp => /repo
