// Package lspx drives *server.Server in-process with a conforming client stub
// (DESIGN.md section 2, 3.7): notifications are decoded from the JSON a client
// would send, PublishDiagnostics calls can be parked and released in a chosen
// order, and quiescence of the server's background goroutines is observed by
// goroutine count, never by sleeping for a fixed time.
package lspx

import (
	"context"
	"errors"
	"fmt"
	"runtime"
	"sync"
	"time"

	sjson "github.com/segmentio/encoding/json"
	"go.lsp.dev/protocol"

	"github.com/juev/hledger-lsp/internal/server"
	"github.com/juev/hledger-lsp/verifharness/refclient"
)

type Pub struct {
	Seq    int
	Params protocol.PublishDiagnosticsParams
}

type parked struct {
	params  *protocol.PublishDiagnosticsParams
	release chan struct{}
}

type Client struct {
	// AnswerTravel, when set, runs between taking the answer to workspace/configuration and handing it over.
	AnswerTravel func()
	mu           sync.Mutex
	seq          int
	Published    []Pub
	park         bool
	parkedQ      []*parked
	cfg          any
	cfgErr       bool
	CfgCalls     int
	Logs         []string
}

func (c *Client) Progress(context.Context, *protocol.ProgressParams) error { return nil }
func (c *Client) WorkDoneProgressCreate(context.Context, *protocol.WorkDoneProgressCreateParams) error {
	return nil
}
func (c *Client) LogMessage(_ context.Context, p *protocol.LogMessageParams) error {
	c.mu.Lock()
	c.Logs = append(c.Logs, p.Message)
	c.mu.Unlock()
	return nil
}
func (c *Client) PublishDiagnostics(_ context.Context, p *protocol.PublishDiagnosticsParams) error {
	c.mu.Lock()
	if c.park {
		pk := &parked{params: p, release: make(chan struct{})}
		c.parkedQ = append(c.parkedQ, pk)
		c.mu.Unlock()
		<-pk.release
		c.mu.Lock()
	}
	c.seq++
	cp := *p
	cp.Diagnostics = append([]protocol.Diagnostic(nil), p.Diagnostics...)
	c.Published = append(c.Published, Pub{Seq: c.seq, Params: cp})
	c.mu.Unlock()
	return nil
}
func (c *Client) ShowMessage(context.Context, *protocol.ShowMessageParams) error { return nil }
func (c *Client) ShowMessageRequest(context.Context, *protocol.ShowMessageRequestParams) (*protocol.MessageActionItem, error) {
	return nil, nil
}
func (c *Client) Telemetry(context.Context, interface{}) error { return nil }
func (c *Client) RegisterCapability(context.Context, *protocol.RegistrationParams) error {
	return nil
}
func (c *Client) UnregisterCapability(context.Context, *protocol.UnregistrationParams) error {
	return nil
}
func (c *Client) ApplyEdit(context.Context, *protocol.ApplyWorkspaceEditParams) (bool, error) {
	return false, nil
}
func (c *Client) Configuration(context.Context, *protocol.ConfigurationParams) ([]interface{}, error) {
	c.mu.Lock()
	c.CfgCalls++
	cfg, cfgErr, travel := c.cfg, c.cfgErr, c.AnswerTravel
	c.mu.Unlock()
	// the answer is what the configuration was when the request arrived; it may take its time to get back
	if travel != nil {
		travel()
	}
	if cfgErr {
		return nil, errors.New("configuration unavailable")
	}
	if cfg == nil {
		return nil, nil
	}
	return []interface{}{cfg}, nil
}
func (c *Client) WorkspaceFolders(context.Context) ([]protocol.WorkspaceFolder, error) {
	return nil, nil
}

// SetConfig installs the value answered to workspace/configuration. The value
// must not be mutated afterwards (a conforming client hands over a copy).
func (c *Client) SetConfig(v any) { c.mu.Lock(); c.cfg = v; c.mu.Unlock() }

// SetPark switches parking of PublishDiagnostics calls on or off.
func (c *Client) SetPark(on bool) { c.mu.Lock(); c.park = on; c.mu.Unlock() }

// Parked returns the parameters of the calls currently parked, in arrival order.
func (c *Client) Parked() []*protocol.PublishDiagnosticsParams {
	c.mu.Lock()
	defer c.mu.Unlock()
	var out []*protocol.PublishDiagnosticsParams
	for _, p := range c.parkedQ {
		out = append(out, p.params)
	}
	return out
}

// Release lets the i-th parked call (arrival order) proceed and waits until it
// has been delivered.
func (c *Client) Release(i int) {
	c.mu.Lock()
	pk := c.parkedQ[i]
	c.parkedQ = append(c.parkedQ[:i:i], c.parkedQ[i+1:]...)
	before := c.seq
	c.mu.Unlock()
	close(pk.release)
	for {
		c.mu.Lock()
		done := c.seq > before
		c.mu.Unlock()
		if done {
			return
		}
		runtime.Gosched()
	}
}

func (c *Client) nParked() int { c.mu.Lock(); defer c.mu.Unlock(); return len(c.parkedQ) }

// LastDiagnostics returns the most recent publication for a URI.
func (c *Client) LastDiagnostics(uri string) ([]protocol.Diagnostic, bool) {
	c.mu.Lock()
	defer c.mu.Unlock()
	for i := len(c.Published) - 1; i >= 0; i-- {
		if string(c.Published[i].Params.URI) == uri {
			return c.Published[i].Params.Diagnostics, true
		}
	}
	return nil, false
}

func (c *Client) PubCount() int { c.mu.Lock(); defer c.mu.Unlock(); return len(c.Published) }

type Options struct {
	RootDir               string // "" = no workspace
	RootURI               string // the workspace folder as the client spells it (percent-encoded); "" = "file://" + RootDir
	InitOptions           any    // initializationOptions as decoded JSON
	SupportsConfiguration bool
	Config                any // answer to workspace/configuration
	SkipInitialized       bool
}

type Harness struct {
	S        *server.Server
	C        *Client
	Init     *protocol.InitializeResult
	baseline int
}

var ErrNotQuiescent = errors.New("server background work did not finish within the watchdog")

// restingGoroutines is the number of goroutines to count as "nothing of this server is running".
// A goroutine of an earlier case that is still winding down when the next server is created (seen
// under load) would raise that number by one for the whole case, and every wait for quiescence in it
// would return one goroutine too early: when more goroutines are alive than the smallest resting
// number seen so far, they get a moment to end before the count is taken.
var (
	floorMu sync.Mutex
	floorG  int
)

func restingGoroutines() int {
	floorMu.Lock()
	defer floorMu.Unlock()
	n := runtime.NumGoroutine()
	if floorG != 0 && n > floorG {
		for deadline := time.Now().Add(50 * time.Millisecond); n > floorG && time.Now().Before(deadline); n = runtime.NumGoroutine() {
			time.Sleep(50 * time.Microsecond)
		}
	}
	floorG = n
	return n
}

// New creates a server, connects the stub and performs initialize/initialized.
func New(o Options) (*Harness, error) {
	h := &Harness{S: server.NewServer(), C: &Client{cfg: o.Config}, baseline: restingGoroutines()}
	h.S.SetClient(h.C)
	params := &protocol.InitializeParams{InitializationOptions: o.InitOptions}
	if o.SupportsConfiguration {
		params.Capabilities.Workspace = &protocol.WorkspaceClientCapabilities{Configuration: true}
	}
	if o.RootDir != "" {
		ru := "file://" + o.RootDir
		if o.RootURI != "" {
			ru = o.RootURI
		}
		params.WorkspaceFolders = []protocol.WorkspaceFolder{{URI: ru, Name: "ws"}}
	}
	res, err := h.S.Initialize(context.Background(), params)
	if err != nil {
		return h, fmt.Errorf("initialize: %w", err)
	}
	h.Init = res
	if !o.SkipInitialized {
		if err := h.S.Initialized(context.Background(), &protocol.InitializedParams{}); err != nil {
			return h, fmt.Errorf("initialized: %w", err)
		}
		if err := h.Quiesce(); err != nil {
			return h, err
		}
	}
	return h, nil
}

// Quiesce waits until every goroutine the server started has returned or is
// parked in the client stub.
func (h *Harness) Quiesce() error {
	deadline := time.Now().Add(60 * time.Second)
	spins := 0
	for {
		if runtime.NumGoroutine() <= h.baseline+h.C.nParked() {
			return nil
		}
		spins++
		if spins < 200 {
			runtime.Gosched()
		} else {
			time.Sleep(50 * time.Microsecond)
		}
		if spins%1000 == 0 && time.Now().After(deadline) {
			return ErrNotQuiescent
		}
	}
}

// BusyBeyond returns how many background goroutines are alive beyond parked
// calls and n further goroutines the caller knows to be waiting.
func (h *Harness) BusyBeyond(n int) int {
	return runtime.NumGoroutine() - (h.baseline + h.C.nParked() + n)
}

// Busy reports whether background goroutines (beyond parked calls) are alive.
func (h *Harness) Busy() bool { return runtime.NumGoroutine() > h.baseline+h.C.nParked() }

func URI(path string) string { return "file://" + path }

func (h *Harness) Open(uri, text string) error {
	return h.S.DidOpen(context.Background(), &protocol.DidOpenTextDocumentParams{
		TextDocument: protocol.TextDocumentItem{URI: protocol.DocumentURI(uri), LanguageID: "hledger", Version: 1, Text: text}})
}

func (h *Harness) Close(uri string) error {
	return h.S.DidClose(context.Background(), &protocol.DidCloseTextDocumentParams{
		TextDocument: protocol.TextDocumentIdentifier{URI: protocol.DocumentURI(uri)}})
}

func (h *Harness) Save(uri string) error {
	return h.S.DidSave(context.Background(), &protocol.DidSaveTextDocumentParams{
		TextDocument: protocol.TextDocumentIdentifier{URI: protocol.DocumentURI(uri)}})
}

// ChangeJSON builds the didChange params JSON a conforming client sends: a
// full change has no "range" member.
func ChangeJSON(uri string, version int, changes []refclient.Change) []byte {
	type wirePos struct {
		Line      int `json:"line"`
		Character int `json:"character"`
	}
	type wireRange struct {
		Start wirePos `json:"start"`
		End   wirePos `json:"end"`
	}
	type wireChange struct {
		Range *wireRange `json:"range,omitempty"`
		Text  string     `json:"text"`
	}
	var cs []wireChange
	for _, c := range changes {
		wc := wireChange{Text: c.Text}
		if c.Range != nil {
			wc.Range = &wireRange{wirePos{c.Range.Start.Line, c.Range.Start.Char}, wirePos{c.Range.End.Line, c.Range.End.Char}}
		}
		cs = append(cs, wc)
	}
	doc := map[string]any{
		"textDocument":   map[string]any{"uri": uri, "version": version},
		"contentChanges": cs,
	}
	b, err := sjson.Marshal(doc)
	if err != nil {
		panic(err)
	}
	return b
}

// Change sends a didChange, decoded exactly as protocol.ServerHandler decodes it.
func (h *Harness) Change(uri string, version int, changes []refclient.Change) error {
	// as cmd/hledger-lsp does: the protocol type is decoded from the wire form, and the
	// context carries which changes came without a range
	raw := ChangeJSON(uri, version, changes)
	var params protocol.DidChangeTextDocumentParams
	if err := sjson.Unmarshal(raw, &params); err != nil {
		return fmt.Errorf("decode didChange: %w", err)
	}
	return h.S.DidChange(server.WithRangelessChanges(context.Background(), raw), &params)
}

func (h *Harness) ChangeConfiguration() error {
	return h.S.DidChangeConfiguration(context.Background(), &protocol.DidChangeConfigurationParams{})
}

// PushConfiguration sends the settings inside the notification, as a client without the
// workspace/configuration capability does.
func (h *Harness) PushConfiguration(settings any) error {
	return h.S.DidChangeConfiguration(context.Background(), &protocol.DidChangeConfigurationParams{Settings: settings})
}

// OpenAndWait opens a document and returns the diagnostics published for it.
func (h *Harness) OpenAndWait(uri, text string) ([]protocol.Diagnostic, error) {
	before := h.C.PubCount()
	if err := h.Open(uri, text); err != nil {
		return nil, err
	}
	if err := h.Quiesce(); err != nil {
		return nil, err
	}
	// every didOpen is answered by one publication (an empty one when diagnostics are switched off):
	// should none have arrived yet, it is waited for rather than an older one taken for it
	for deadline := time.Now().Add(5 * time.Second); h.C.PubCount() == before && time.Now().Before(deadline); {
		time.Sleep(200 * time.Microsecond)
		if err := h.Quiesce(); err != nil {
			return nil, err
		}
	}
	d, _ := h.C.LastDiagnostics(uri)
	return d, nil
}

// Guard runs f and turns a panic into an error carrying the stack.
func Guard(f func()) (err error) {
	defer func() {
		if r := recover(); r != nil {
			buf := make([]byte, 1<<14)
			n := runtime.Stack(buf, false)
			err = fmt.Errorf("panic: %v\n%s", r, buf[:n])
		}
	}()
	f()
	return nil
}
