package lspx

import (
	"fmt"
	"reflect"

	"go.lsp.dev/protocol"

	"github.com/juev/hledger-lsp/verifharness/refclient"
)

// Found is one position-bearing value discovered in a response.
type Found struct {
	URI   string // "" = the document the request was about
	Range refclient.Range
	Path  string
	Fold  bool // a FoldingRange: lines are inclusive, characters optional
}

var (
	tRange    = reflect.TypeOf(protocol.Range{})
	tPosition = reflect.TypeOf(protocol.Position{})
	tLocation = reflect.TypeOf(protocol.Location{})
	tFold     = reflect.TypeOf(protocol.FoldingRange{})
)

func toRef(r protocol.Range) refclient.Range {
	return refclient.Range{Start: refclient.Pos{Line: int(r.Start.Line), Char: int(r.Start.Character)}, End: refclient.Pos{Line: int(r.End.Line), Char: int(r.End.Character)}}
}

// Walk finds every Range / Location / Position / FoldingRange inside v,
// whatever the response type, so new response fields are validated without
// new code (DESIGN.md 3.2).
func Walk(v any) []Found {
	var out []Found
	walk(reflect.ValueOf(v), "", "", &out, 0)
	return out
}

func walk(v reflect.Value, uri, path string, out *[]Found, depth int) {
	if !v.IsValid() || depth > 40 {
		return
	}
	switch v.Kind() {
	case reflect.Ptr, reflect.Interface:
		if v.IsNil() {
			return
		}
		walk(v.Elem(), uri, path, out, depth+1)
		return
	}
	switch v.Type() {
	case tRange:
		*out = append(*out, Found{URI: uri, Range: toRef(v.Interface().(protocol.Range)), Path: path})
		return
	case tPosition:
		p := v.Interface().(protocol.Position)
		rp := refclient.Pos{Line: int(p.Line), Char: int(p.Character)}
		*out = append(*out, Found{URI: uri, Range: refclient.Range{Start: rp, End: rp}, Path: path})
		return
	case tLocation:
		l := v.Interface().(protocol.Location)
		*out = append(*out, Found{URI: string(l.URI), Range: toRef(l.Range), Path: path + ".Location"})
		return
	case tFold:
		f := v.Interface().(protocol.FoldingRange)
		*out = append(*out, Found{URI: uri, Fold: true, Path: path,
			Range: refclient.Range{Start: refclient.Pos{Line: int(f.StartLine), Char: int(f.StartCharacter)}, End: refclient.Pos{Line: int(f.EndLine), Char: int(f.EndCharacter)}}})
		return
	}
	switch v.Kind() {
	case reflect.Struct:
		for i := 0; i < v.NumField(); i++ {
			if !v.Type().Field(i).IsExported() {
				continue
			}
			walk(v.Field(i), uri, path+"."+v.Type().Field(i).Name, out, depth+1)
		}
	case reflect.Slice, reflect.Array:
		for i := 0; i < v.Len(); i++ {
			walk(v.Index(i), uri, fmt.Sprintf("%s[%d]", path, i), out, depth+1)
		}
	case reflect.Map:
		for _, k := range v.MapKeys() {
			u := uri
			if k.Kind() == reflect.String {
				// WorkspaceEdit.Changes: the key names the document
				if ks := k.String(); len(ks) > 7 && ks[:7] == "file://" {
					u = ks
				}
			}
			walk(v.MapIndex(k), u, fmt.Sprintf("%s[%v]", path, k.Interface()), out, depth+1)
		}
	}
}
