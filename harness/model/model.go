// Package model is the ground-truth journal model (DESIGN.md 3.3, 4.2, 4.3):
// journals are generated as structures and rendered to text, so the expected
// parse, every lexeme span and every exact quantity are known by construction.
package model

import (
	"fmt"
	"math/big"
	"strings"
	"unicode/utf16"
)

// ---------- numbers ----------

type Num struct {
	Neg   bool   `json:"neg,omitempty"`
	Mant  string `json:"mant"`  // decimal digits, no leading zeros (or "0")
	Scale int    `json:"scale"` // value = Mant * 10^-Scale
}

func (n Num) Rat() *big.Rat {
	m, _ := new(big.Int).SetString(n.Mant, 10)
	d := new(big.Int).Exp(big.NewInt(10), big.NewInt(int64(n.Scale)), nil)
	r := new(big.Rat).SetFrac(m, d)
	if n.Neg {
		r.Neg(r)
	}
	return r
}

func (n Num) IsZero() bool { return strings.Trim(n.Mant, "0") == "" }

// NumFromRat builds a Num from a rational with a finite decimal expansion of at most maxScale digits.
func NumFromRat(r *big.Rat, scale int) Num {
	x := new(big.Rat).Set(r)
	neg := x.Sign() < 0
	if neg {
		x.Neg(x)
	}
	p := new(big.Int).Exp(big.NewInt(10), big.NewInt(int64(scale)), nil)
	x.Mul(x, new(big.Rat).SetInt(p))
	if !x.IsInt() {
		panic("NumFromRat: not representable at scale")
	}
	return Num{Neg: neg, Mant: x.Num().String(), Scale: scale}
}

type NumStyle struct {
	Dec      string `json:"dec"`             // "." or ","
	Group    string `json:"group,omitempty"` // "", ",", ".", " "
	Trailing bool   `json:"trailing,omitempty"`
	Exp      int    `json:"exp,omitempty"`     // 0 = none else exponent value
	ExpForm  int    `json:"expform,omitempty"` // 0 "E", 1 "e", 2 explicit sign
	Plus     bool   `json:"plus,omitempty"`    // explicit + on non-negative
	Trim     bool   `json:"trim,omitempty"`    // with an exponent: drop trailing fraction zeros (1.500E3 -> 1.5E3)
}

type Feats map[string]bool

func plainDigits(mant string, scale int, st NumStyle, feats Feats) string {
	for len(mant) <= scale {
		mant = "0" + mant
	}
	ip, fp := mant[:len(mant)-scale], mant[len(mant)-scale:]
	grouped := ip
	ngroups := 0
	if st.Group != "" && len(ip) > 3 {
		var parts []string
		rest := ip
		for len(rest) > 3 {
			parts = append([]string{rest[len(rest)-3:]}, parts...)
			rest = rest[:len(rest)-3]
		}
		parts = append([]string{rest}, parts...)
		ngroups = len(parts) - 1
		grouped = strings.Join(parts, st.Group)
	}
	nonzeroInt := strings.Trim(ip, "0") != ""
	// ambiguity repairs (DESIGN.md 4.3): one mark, three digits after it, a non-zero integer part of at
	// most three digits (with four or more before it the mark cannot be a group mark: "1234.567")
	if scale == 3 && ngroups == 0 && nonzeroInt && len(ip) <= 3 {
		fp += "0"
		feats["num.repaired-3dec"] = true
	}
	if len(fp) == 0 && ngroups == 1 && !st.Trailing {
		grouped = ip // drop the lone group mark
		ngroups = 0
		feats["num.repaired-1group"] = true
	}
	s := grouped
	if len(fp) > 0 {
		s += st.Dec + fp
	} else if st.Trailing {
		s += st.Dec
	}
	if ngroups > 0 {
		feats["num.group"] = true
		if st.Group == " " {
			feats["num.group-space"] = true
		}
	}
	if st.Dec == "," && (len(fp) > 0 || st.Trailing) {
		feats["num.comma-dec"] = true
	}
	if st.Trailing && len(fp) == 0 {
		feats["num.trailing"] = true
	}
	return s
}

// markFeats flags spellings that hit known number-reading defects.
func markFeats(s string, feats Feats) {
	t := strings.ReplaceAll(s, " ", "")
	marks := strings.Count(t, ".") + strings.Count(t, ",")
	if marks != 1 {
		return
	}
	i := strings.IndexAny(t, ".,")
	if len(t)-i-1 != 3 || strings.Trim(t[:i], "0") == "" {
		return
	}
	if nd := len(strings.TrimLeft(t[:i], "+-")); nd > 3 && !strings.ContainsAny(t, "eE") && !strings.Contains(s, " ") {
		return // four or more digits before a lone mark: a decimal mark beyond doubt
	}
	if strings.ContainsAny(t, "eE") {
		feats["num.exp-3chars"] = true
	} else if strings.Contains(s, " ") {
		feats["num.space-group-3dec"] = true
	} else {
		feats["num.BUG-ambiguous-generated"] = true
	}
}

// RenderNum renders the unsigned digits (the sign is placed by the amount renderer).
func RenderNum(n Num, st NumStyle, feats Feats) string {
	if st.Dec == "" {
		st.Dec = "."
	}
	s := renderNum(n, st, feats)
	markFeats(s, feats)
	return s
}

func renderNum(n Num, st NumStyle, feats Feats) string {
	if st.Exp == 0 {
		return plainDigits(n.Mant, n.Scale, st, feats)
	}
	// N' * 10^Exp = value  =>  N' = mant * 10^-(scale+Exp)
	mant, scale := n.Mant, n.Scale+st.Exp
	if scale < 0 {
		if mant != "0" {
			mant += strings.Repeat("0", -scale)
		}
		scale = 0
	}
	if st.Trim {
		for scale > 0 && strings.HasSuffix(mant, "0") && len(mant) > 1 {
			mant = mant[:len(mant)-1]
			scale--
		}
	}
	s := plainDigits(mant, scale, st, feats)
	e := "E"
	if st.ExpForm == 1 {
		e = "e"
	}
	ex := st.Exp
	sign := ""
	if ex < 0 {
		sign = "-"
		ex = -ex
	} else if st.ExpForm == 2 {
		sign = "+"
	}
	feats["num.exp"] = true
	return s + e + sign + fmt.Sprint(ex)
}

// ---------- model ----------

type Amount struct {
	Q          Num      `json:"q"`
	Sym        string   `json:"sym,omitempty"`
	Left       bool     `json:"left,omitempty"`
	SymSpace   bool     `json:"symspace,omitempty"`   // space between left symbol and number
	SymTab     bool     `json:"symtab,omitempty"`     // ... written as a tab
	SignBefore bool     `json:"signbefore,omitempty"` // sign before a left commodity
	Style      NumStyle `json:"style"`
}

type Cost struct {
	Total bool   `json:"total,omitempty"`
	A     Amount `json:"a"`
}

type Assert struct {
	Strict   bool   `json:"strict,omitempty"`
	A        Amount `json:"a"`
	SpBefore int    `json:"spb"`
	SpAfter  int    `json:"spa"`
}

type CItem struct {
	Tag   bool   `json:"tag,omitempty"`
	Text  string `json:"text,omitempty"` // free text (no ':' ',')
	Name  string `json:"name,omitempty"`
	Value string `json:"value,omitempty"`
	VSep  string `json:"vsep,omitempty"` // blanks between the colon and the value
	Pre   string `json:"pre,omitempty"`  // tag only: text (ending in a blank) that stands before the name in the same piece
}

type Comment struct {
	Items []CItem `json:"items"`
	Lead  string  `json:"lead"` // blanks after ';'
}

// Body is the comment text as the parser should report it (everything after ';').
func (c *Comment) Body() string {
	var sb strings.Builder
	sb.WriteString(c.Lead)
	for i, it := range c.Items {
		if i > 0 {
			sb.WriteString(", ")
		}
		if it.Tag {
			sb.WriteString(it.Pre + it.Name + ":")
			if it.Value != "" {
				sb.WriteString(it.VSep)
			}
			sb.WriteString(it.Value)
		} else {
			sb.WriteString(it.Text)
		}
	}
	return sb.String()
}

func (c *Comment) Tags() [][2]string {
	var out [][2]string
	if c == nil {
		return nil
	}
	for _, it := range c.Items {
		if it.Tag {
			out = append(out, [2]string{it.Name, strings.TrimSpace(it.Value)})
		}
	}
	return out
}

type Posting struct {
	Status  int      `json:"status,omitempty"` // 0 none 1 ! 2 *
	Kind    int      `json:"kind,omitempty"`   // 0 real 1 [balanced] 2 (unbalanced)
	Account string   `json:"account"`
	Amt     *Amount  `json:"amt,omitempty"`
	Cost    *Cost    `json:"cost,omitempty"`
	Assert  *Assert  `json:"assert,omitempty"`
	Comment *Comment `json:"comment,omitempty"`
	Indent  string   `json:"indent"`
	Sep     string   `json:"sep"`
	CSep    string   `json:"csep,omitempty"`
	Trail   string   `json:"trail,omitempty"` // blanks at the end of the line
}

type BodyItem struct {
	P      *Posting `json:"p,omitempty"`
	C      *Comment `json:"c,omitempty"` // indented comment line
	Indent string   `json:"indent,omitempty"`
}

type Date struct {
	Y       int    `json:"y"`
	M       int    `json:"m"`
	D       int    `json:"d"`
	Sep     string `json:"sep"`
	Pad     bool   `json:"pad,omitempty"`
	Partial bool   `json:"partial,omitempty"`
}

type Tx struct {
	Date      Date       `json:"date"`
	Date2     *Date      `json:"date2,omitempty"`
	Status    int        `json:"status,omitempty"`
	Code      *string    `json:"code,omitempty"`
	Payee     string     `json:"payee,omitempty"` // whole description when !HasNote
	HasNote   bool       `json:"hasnote,omitempty"`
	Note      string     `json:"note,omitempty"`
	NoDesc    bool       `json:"nodesc,omitempty"`
	DescClass string     `json:"descclass,omitempty"`
	HC        *Comment   `json:"hc,omitempty"`
	HCSep     string     `json:"hcsep,omitempty"`
	DSep      string     `json:"dsep,omitempty"` // blanks before the description ("" = one blank); may hold a non-ASCII blank after the first
	Body      []BodyItem `json:"body,omitempty"`
	Trail     string     `json:"trail,omitempty"` // blanks at the end of the header line
}

func (t *Tx) Postings() []*Posting {
	var out []*Posting
	for i := range t.Body {
		if t.Body[i].P != nil {
			out = append(out, t.Body[i].P)
		}
	}
	return out
}

// Fmt is a commodity display format written as a sample amount.
type Fmt struct {
	Sym      string `json:"sym"`
	Left     bool   `json:"left,omitempty"`
	Space    bool   `json:"space,omitempty"`
	Dec      string `json:"dec"`
	Group    string `json:"group,omitempty"`
	Decimals int    `json:"decimals"`
}

func (f Fmt) Render() string {
	a, b, c := f.parts()
	return a + b + c
}

// parts splits the sample amount into (before symbol, symbol, after symbol).
func (f Fmt) parts() (string, string, string) {
	ip := "1000"
	if f.Group != "" {
		ip = "1" + f.Group + "000"
	}
	num := ip
	if f.Decimals > 0 {
		num += f.Dec + strings.Repeat("0", f.Decimals)
	} else {
		num += f.Dec // zero decimals are written with a trailing mark
	}
	sym := SymText(f.Sym)
	if f.Sym == "" {
		return num, "", ""
	}
	if f.Left {
		if f.Space {
			return "", sym, " " + num
		}
		return "", sym, num
	}
	return num + " ", sym, ""
}

// renderFmt writes a format sample and records the span of the whole sample
// ("format") and of the commodity symbol inside it ("fmt.commodity").
func renderFmt(b *lineBuf, f *Fmt) {
	st := U16Len(b.cur.String())
	a, sym, c := f.parts()
	b.w(a)
	if sym != "" {
		b.span("fmt.commodity", sym)
	}
	b.w(c)
	full := a + sym + c
	b.r.Spans = append(b.r.Spans, Span{Kind: "format", Line: b.line, S: st, E: st + U16Len(full), Text: full, Entry: b.entry, Post: b.post})
}

type Directive struct {
	Kind    string   `json:"kind"` // account | commodity | commodity-sub | include | P | Y | year | D
	Account string   `json:"account,omitempty"`
	Comment *Comment `json:"comment,omitempty"`
	CSep    string   `json:"csep,omitempty"`
	Fmt     *Fmt     `json:"fmt,omitempty"` // commodity, commodity-sub (format subdirective), D
	SubSep  string   `json:"subsep,omitempty"`  // commodity-sub: what stands between "format" and its value ("" = one blank)
	SubNote string   `json:"subnote,omitempty"` // commodity-sub: a "note ..." subdirective line (written as is) before the format line
	Sym     string   `json:"sym,omitempty"` // commodity without format, P
	Path    string   `json:"path,omitempty"`
	Date    *Date    `json:"date,omitempty"`
	Price   *Amount  `json:"price,omitempty"`
	Year    int      `json:"year,omitempty"`
	Indent  string   `json:"indent,omitempty"`
}

type Entry struct {
	Tx          *Tx        `json:"tx,omitempty"`
	Dir         *Directive `json:"dir,omitempty"`
	CommentLine *string    `json:"commentline,omitempty"` // top-level ";" line (text after ';')
	Raw         *string    `json:"raw,omitempty"`         // a top-level line written verbatim (no spans): constructs the model has no fields for
	Blank       int        `json:"blank,omitempty"`       // blank lines after the entry
}

type Journal struct {
	Entries []Entry `json:"entries"`
	NL      string  `json:"nl"`
}

// ---------- rendering ----------

type Span struct {
	Kind  string `json:"kind"`
	Line  int    `json:"line"` // 0-based
	S     int    `json:"s"`    // UTF-16 units
	E     int    `json:"e"`
	Text  string `json:"text"`
	Entry int    `json:"entry"`
	Post  int    `json:"post"` // posting index inside the transaction or -1
}

type LineInfo struct {
	Kind  string // header | posting | comment | directive | subdirective | topcomment | blank
	Entry int
	Post  int
}

type Rendered struct {
	Text       string
	Lines      []string // without terminators
	LineInfo   []LineInfo
	Spans      []Span
	Feats      Feats
	EntryFeats []Feats
	EntryLine  []int // first line of each entry
	EntryEnd   []int // last line (inclusive) of each entry, blank lines excluded
}

func U16Len(s string) int { return len(utf16.Encode([]rune(s))) }

type lineBuf struct {
	r     *Rendered
	line  int
	cur   strings.Builder
	entry int
	post  int
}

func (b *lineBuf) w(s string) { b.cur.WriteString(s) }
func (b *lineBuf) span(kind, s string) {
	st := U16Len(b.cur.String())
	b.cur.WriteString(s)
	b.r.Spans = append(b.r.Spans, Span{Kind: kind, Line: b.line, S: st, E: st + U16Len(s), Text: s, Entry: b.entry, Post: b.post})
}

func NeedsQuote(sym string) bool {
	for _, r := range sym {
		if r == ' ' || r == '.' || r == ',' || r == '-' || r == '+' || (r >= '0' && r <= '9') {
			return true
		}
		// letters of other scripts are written in quotes (G promises upper-case ASCII and currency signs unquoted)
		if r > 127 && !IsCurrency(string(r)) {
			return true
		}
	}
	return false
}

func IsCurrency(sym string) bool {
	return sym == "$" || sym == "€" || sym == "£" || sym == "¥" || sym == "₽" || sym == "₴"
}

func SymText(sym string) string {
	if NeedsQuote(sym) {
		return "\"" + sym + "\""
	}
	return sym
}

func renderAmount(b *lineBuf, a *Amount, kindPrefix string, feats Feats) {
	start := U16Len(b.cur.String())
	startLen := b.cur.Len()
	sign := ""
	if a.Q.Neg {
		sign = "-"
	} else if a.Style.Plus {
		sign = "+"
		feats["num.plus"] = true
	}
	digits := RenderNum(a.Q, a.Style, feats)
	switch {
	case a.Sym == "":
		b.w(sign)
		b.span(kindPrefix+"number", digits)
	case a.Left:
		if a.SignBefore && sign != "" {
			b.w(sign)
			feats["sign.before-commodity"] = true
			if NeedsQuote(a.Sym) {
				feats["sign.before-quoted"] = true
			}
			if !IsCurrency(a.Sym) && !NeedsQuote(a.Sym) && a.SymSpace {
				feats["sign.before-code-space"] = true
			}
		}
		b.span(kindPrefix+"commodity", SymText(a.Sym))
		if a.SymSpace {
			if a.SymTab {
				b.w("\t")
				feats["commodity.tab-gap"] = true
			} else {
				b.w(" ")
			}
			if !IsCurrency(a.Sym) && !NeedsQuote(a.Sym) {
				feats["commodity.left-code-space"] = true
			}
		}
		if !a.SignBefore {
			b.w(sign)
		}
		b.span(kindPrefix+"number", digits)
	default:
		b.w(sign)
		b.span(kindPrefix+"number", digits)
		b.w(" ")
		b.span(kindPrefix+"commodity", SymText(a.Sym))
	}
	if NeedsQuote(a.Sym) {
		feats["commodity.quoted"] = true
	}
	full := b.cur.String()[startLen:]
	b.r.Spans = append(b.r.Spans, Span{Kind: kindPrefix + "amount", Line: b.line, S: start, E: start + U16Len(full), Text: full, Entry: b.entry, Post: b.post})
}

func renderComment(b *lineBuf, c *Comment, kind string) {
	st := U16Len(b.cur.String())
	stLen := b.cur.Len()
	b.w(";")
	if len(c.Items) == 0 {
		// a comment mark with nothing behind it: blanks after it are the end of the line, not comment text
		b.r.Spans = append(b.r.Spans, Span{Kind: kind, Line: b.line, S: st, E: st + 1, Text: ";", Entry: b.entry, Post: b.post})
		b.w(c.Lead)
		return
	}
	b.w(c.Lead)
	for i, it := range c.Items {
		if i > 0 {
			b.w(", ")
		}
		if it.Tag {
			b.w(it.Pre)
			b.span("tagname", it.Name)
			b.w(":")
			if it.Value != "" {
				b.w(it.VSep)
				b.span("tagvalue", it.Value)
			}
		} else {
			b.w(it.Text)
		}
	}
	full := b.cur.String()[stLen:]
	b.r.Spans = append(b.r.Spans, Span{Kind: kind, Line: b.line, S: st, E: st + U16Len(full), Text: full, Entry: b.entry, Post: b.post})
}

func (d Date) String() string {
	f := "%d"
	if d.Pad {
		f = "%02d"
	}
	s := ""
	if !d.Partial {
		s = fmt.Sprintf("%04d%s", d.Y, d.Sep)
	}
	return s + fmt.Sprintf(f+"%s"+f, d.M, d.Sep, d.D)
}

// Render turns the model into text and records spans and features.
func Render(j *Journal) *Rendered {
	nl := j.NL
	if nl == "" {
		nl = "\n"
	}
	r := &Rendered{Feats: Feats{}}
	if nl == "\r\n" {
		r.Feats["eol.crlf"] = true
	}
	line := 0
	emit := func(b *lineBuf, info LineInfo) {
		r.Lines = append(r.Lines, b.cur.String())
		r.LineInfo = append(r.LineInfo, info)
		line++
	}
	for ei := range j.Entries {
		e := &j.Entries[ei]
		feats := Feats{}
		r.EntryFeats = append(r.EntryFeats, feats)
		r.EntryLine = append(r.EntryLine, line)
		switch {
		case e.CommentLine != nil:
			b := &lineBuf{r: r, line: line, entry: ei, post: -1}
			b.span("topcomment", ";"+*e.CommentLine)
			emit(b, LineInfo{"topcomment", ei, -1})
		case e.Raw != nil:
			b := &lineBuf{r: r, line: line, entry: ei, post: -1}
			b.w(*e.Raw)
			feats["raw-line"] = true
			emit(b, LineInfo{"directive", ei, -1})
		case e.Dir != nil:
			renderDirective(r, e.Dir, ei, &line, emit, feats)
		case e.Tx != nil:
			renderTx(r, e.Tx, ei, &line, emit, feats)
		}
		r.EntryEnd = append(r.EntryEnd, line-1)
		for k := 0; k < e.Blank; k++ {
			b := &lineBuf{r: r, line: line, entry: ei, post: -1}
			emit(b, LineInfo{"blank", ei, -1})
		}
		for k := range feats {
			r.Feats[k] = true
		}
	}
	var sb strings.Builder
	for _, l := range r.Lines {
		sb.WriteString(l)
		sb.WriteString(nl)
	}
	r.Text = sb.String()
	for _, ru := range r.Text {
		if ru >= 0x10000 {
			r.Feats["text.nonbmp"] = true
		}
		if ru >= 0x80 {
			r.Feats["text.nonascii"] = true
		}
	}
	return r
}

func renderDirective(r *Rendered, d *Directive, ei int, line *int, emit func(*lineBuf, LineInfo), feats Feats) {
	b := &lineBuf{r: r, line: *line, entry: ei, post: -1}
	feats["dir."+d.Kind] = true
	switch d.Kind {
	case "account":
		b.span("keyword", "account")
		b.w(" ")
		b.span("account", d.Account)
		if d.Comment != nil {
			b.w(d.CSep)
			renderComment(b, d.Comment, "comment")
		}
		emit(b, LineInfo{"directive", ei, -1})
	case "commodity":
		b.span("keyword", "commodity")
		b.w(" ")
		if d.Fmt != nil {
			renderFmt(b, d.Fmt)
			if NeedsQuote(d.Fmt.Sym) {
				feats["commodity.quoted"] = true
			}
		} else {
			b.span("commodity", SymText(d.Sym))
			if NeedsQuote(d.Sym) {
				feats["commodity.quoted"] = true
			}
		}
		emit(b, LineInfo{"directive", ei, -1})
	case "commodity-sub":
		b.span("keyword", "commodity")
		b.w(" ")
		b.span("commodity", SymText(d.Fmt.Sym))
		if NeedsQuote(d.Fmt.Sym) {
			feats["commodity.quoted"] = true
		}
		emit(b, LineInfo{"directive", ei, -1})
		if d.SubNote != "" {
			bn := &lineBuf{r: r, line: *line, entry: ei, post: -1}
			bn.w(d.Indent)
			bn.w(d.SubNote)
			feats["dir.subdirective-note"] = true
			emit(bn, LineInfo{"subdirective", ei, -1})
		}
		b2 := &lineBuf{r: r, line: *line, entry: ei, post: -1}
		b2.w(d.Indent)
		b2.span("keyword", "format")
		if d.SubSep != "" {
			b2.w(d.SubSep)
			feats["dir.subdirective-tab"] = true
		} else {
			b2.w(" ")
		}
		renderFmt(b2, d.Fmt)
		emit(b2, LineInfo{"subdirective", ei, -1})
	case "include":
		b.span("keyword", "include")
		b.w(" ")
		b.span("path", d.Path)
		if d.Comment != nil {
			b.w(d.CSep)
			renderComment(b, d.Comment, "comment")
		} else if d.CSep != "" {
			b.w(d.CSep) // blanks at the end of the line
		}
		emit(b, LineInfo{"directive", ei, -1})
	case "P":
		b.span("keyword", "P")
		b.w(" ")
		b.span("date", d.Date.String())
		b.w(" ")
		b.span("commodity", SymText(d.Sym))
		b.w(" ")
		renderAmount(b, d.Price, "price.", feats)
		if NeedsQuote(d.Sym) {
			feats["commodity.quoted"] = true
		}
		emit(b, LineInfo{"directive", ei, -1})
	case "Y", "year":
		b.span("keyword", d.Kind)
		b.w(" ")
		b.span("year", fmt.Sprint(d.Year))
		emit(b, LineInfo{"directive", ei, -1})
	case "D":
		b.span("keyword", "D")
		b.w(" ")
		renderFmt(b, d.Fmt)
		if NeedsQuote(d.Fmt.Sym) {
			feats["commodity.quoted"] = true
		}
		emit(b, LineInfo{"directive", ei, -1})
	}
}

func renderTx(r *Rendered, tx *Tx, ei int, line *int, emit func(*lineBuf, LineInfo), feats Feats) {
	b := &lineBuf{r: r, line: *line, entry: ei, post: -1}
	b.span("date", tx.Date.String())
	if tx.Date.Partial {
		feats["date.partial"] = true
	}
	if tx.Date2 != nil {
		b.span("op", "=")
		b.span("date2", tx.Date2.String())
		feats["tx.date2"] = true
		if tx.Date2.Partial {
			feats["date2.partial"] = true
		}
	}
	if tx.Status != 0 {
		b.w(" ")
		b.span("status", []string{"", "!", "*"}[tx.Status])
		feats["tx.status"] = true
	}
	if tx.Code != nil {
		b.w(" ")
		b.span("code", "("+*tx.Code+")")
		feats["tx.code"] = true
	}
	if !tx.NoDesc {
		if tx.DSep != "" {
			b.w(tx.DSep)
			feats["descr.lead-blanks"] = true
			if asciiOnlyStr(tx.DSep) != tx.DSep {
				feats["descr.lead-unicode-blank"] = true
			}
		} else {
			b.w(" ")
		}
		if tx.HasNote {
			b.span("payee", tx.Payee)
			b.w(" ")
			b.span("pipe", "|")
			feats["tx.pipe"] = true
			if tx.Note != "" {
				b.w(" ")
				b.span("note", tx.Note)
				if tx.Note[0] >= '0' && tx.Note[0] <= '9' {
					feats["note.digit"] = true
				}
			}
		} else {
			b.span("description", tx.Payee)
		}
		if tx.DescClass != "" {
			feats["descr."+tx.DescClass] = true
		}
	}
	if tx.HC != nil {
		b.w(tx.HCSep)
		renderComment(b, tx.HC, "comment")
		feats["tx.header-comment"] = true
	}
	if tx.Trail != "" {
		b.w(tx.Trail)
		feats["line.trailing-blanks"] = true
		if asciiOnlyStr(tx.Trail) != tx.Trail {
			feats["descr.trail-unicode-blank"] = true
		}
	}
	emit(b, LineInfo{"header", ei, -1})
	pi := 0
	for _, it := range tx.Body {
		b = &lineBuf{r: r, line: *line, entry: ei, post: -1}
		if it.C != nil {
			b.w(it.Indent)
			renderComment(b, it.C, "comment")
			for _, ci := range it.C.Items {
				if ci.Tag {
					feats["comment.indented-tag"] = true
				}
			}
			emit(b, LineInfo{"comment", ei, -1})
			continue
		}
		p := it.P
		b.post = pi
		b.w(p.Indent)
		if strings.Contains(p.Indent, "\t") {
			feats["indent.tab"] = true
		}
		if p.Status != 0 {
			b.span("pstatus", []string{"", "!", "*"}[p.Status])
			b.w(" ")
			feats["posting.status"] = true
		}
		fieldStart := U16Len(b.cur.String())
		fieldLen := b.cur.Len()
		switch p.Kind {
		case 1:
			b.w("[")
			feats["posting.virtual-balanced"] = true
		case 2:
			b.w("(")
			feats["posting.virtual-unbalanced"] = true
		}
		b.span("account", p.Account)
		switch p.Kind {
		case 1:
			b.w("]")
		case 2:
			b.w(")")
		}
		field := b.cur.String()[fieldLen:]
		r.Spans = append(r.Spans, Span{Kind: "acctfield", Line: b.line, S: fieldStart, E: fieldStart + U16Len(field), Text: field, Entry: ei, Post: pi})
		if p.Amt != nil {
			b.w(p.Sep)
			if strings.Contains(p.Sep, "\t") {
				feats["sep.tab"] = true
			}
			renderAmount(b, p.Amt, "", feats)
			if p.Cost != nil {
				b.w(" ")
				if p.Cost.Total {
					b.span("op", "@@")
				} else {
					b.span("op", "@")
				}
				b.w(" ")
				renderAmount(b, &p.Cost.A, "cost.", feats)
				feats["posting.cost"] = true
			}
			if p.Assert != nil {
				b.w(strings.Repeat(" ", p.Assert.SpBefore))
				if p.Assert.Strict {
					b.span("op", "==")
				} else {
					b.span("op", "=")
				}
				b.w(strings.Repeat(" ", p.Assert.SpAfter))
				renderAmount(b, &p.Assert.A, "assert.", feats)
				feats["posting.assert"] = true
			}
		} else if p.Assert != nil {
			// a balance assertion on a posting without amount: "assets:cash  = 100 EUR"
			sep := p.Sep
			if !strings.Contains(sep, "\t") && len(sep) < 2 {
				sep = "  "
			}
			b.w(sep)
			if p.Assert.Strict {
				b.span("op", "==")
			} else {
				b.span("op", "=")
			}
			b.w(strings.Repeat(" ", p.Assert.SpAfter))
			renderAmount(b, &p.Assert.A, "assert.", feats)
			feats["posting.assert"] = true
			feats["posting.assert-no-amount"] = true
		}
		if p.Comment != nil {
			feats["posting.comment"] = true
			b.w(p.CSep)
			renderComment(b, p.Comment, "comment")
		}
		if p.Trail != "" {
			b.w(p.Trail)
			feats["line.trailing-blanks"] = true
		}
		emit(b, LineInfo{"posting", ei, pi})
		pi++
	}
}

// SpansOn returns the spans of a kind on a line.
func (r *Rendered) SpansOn(line int, kind string) []Span {
	var out []Span
	for _, s := range r.Spans {
		if s.Line == line && s.Kind == kind {
			out = append(out, s)
		}
	}
	return out
}

func asciiOnlyStr(s string) string {
	var sb strings.Builder
	for _, r := range s {
		if r < 0x80 {
			sb.WriteRune(r)
		}
	}
	return sb.String()
}
