// Package refclient is a reference LSP client text buffer written from the
// LSP 3.17 specification (DESIGN.md 3.1). It shares no code with the server.
package refclient

import (
	"fmt"
	"sort"
	"unicode/utf16"
)

type Pos struct {
	Line int `json:"line"`
	Char int `json:"character"`
}

type Range struct {
	Start Pos `json:"start"`
	End   Pos `json:"end"`
}

// Change is one content change; Range == nil means "the whole document".
type Change struct {
	Range *Range `json:"range,omitempty"`
	Text  string `json:"text"`
}

type Edit struct {
	Range Range
	Text  string
}

// Buffer holds a document as UTF-16 code units, as a conforming client does.
type Buffer struct{ u []uint16 }

func New(text string) *Buffer     { return &Buffer{u: utf16.Encode([]rune(text))} }
func (b *Buffer) String() string  { return string(utf16.Decode(b.u)) }
func (b *Buffer) Units() []uint16 { return b.u }
func (b *Buffer) Clone() *Buffer  { return &Buffer{u: append([]uint16(nil), b.u...)} }

// lineSpans returns, per line, the offset of its first unit and of the end of
// its content (line terminator excluded). Lines end at "\n" or "\r\n"; a lone
// "\r" is also a line end in LSP but no generator of this harness produces one.
func (b *Buffer) lineSpans() [][2]int {
	var spans [][2]int
	start := 0
	for i := 0; i < len(b.u); i++ {
		if b.u[i] == '\n' {
			end := i
			if end > start && b.u[end-1] == '\r' {
				end--
			}
			spans = append(spans, [2]int{start, end})
			start = i + 1
		}
	}
	spans = append(spans, [2]int{start, len(b.u)})
	return spans
}

func (b *Buffer) LineCount() int { return len(b.lineSpans()) }

// LineLen is the UTF-16 length of the line's content.
func (b *Buffer) LineLen(line int) int {
	sp := b.lineSpans()
	if line < 0 || line >= len(sp) {
		return 0
	}
	return sp[line][1] - sp[line][0]
}

func (b *Buffer) Line(line int) string {
	sp := b.lineSpans()
	if line < 0 || line >= len(sp) {
		return ""
	}
	return string(utf16.Decode(b.u[sp[line][0]:sp[line][1]]))
}

// OffsetAt maps a position to a unit offset: a line past the end is the end of
// the document, a character past the line end is the line end (LSP 3.17).
func (b *Buffer) OffsetAt(p Pos) int {
	sp := b.lineSpans()
	if p.Line >= len(sp) {
		return len(b.u)
	}
	if p.Line < 0 {
		return 0
	}
	s := sp[p.Line]
	if p.Char < 0 {
		return s[0]
	}
	if s[0]+p.Char > s[1] {
		return s[1]
	}
	return s[0] + p.Char
}

func (b *Buffer) Apply(changes []Change) {
	for _, c := range changes {
		if c.Range == nil {
			b.u = utf16.Encode([]rune(c.Text))
			continue
		}
		s, e := b.OffsetAt(c.Range.Start), b.OffsetAt(c.Range.End)
		if s > e {
			s, e = e, s
		}
		nu := make([]uint16, 0, len(b.u)+len(c.Text))
		nu = append(nu, b.u[:s]...)
		nu = append(nu, utf16.Encode([]rune(c.Text))...)
		nu = append(nu, b.u[e:]...)
		b.u = nu
	}
}

// ValidatePos checks a position against the buffer (DESIGN.md 3.2).
func (b *Buffer) ValidatePos(p Pos) error {
	sp := b.lineSpans()
	if p.Line < 0 || p.Line >= len(sp) {
		return fmt.Errorf("line %d outside the document (%d lines)", p.Line, len(sp))
	}
	s := sp[p.Line]
	if p.Char < 0 || p.Char > s[1]-s[0] {
		return fmt.Errorf("character %d outside line %d (length %d UTF-16 units)", p.Char, p.Line, s[1]-s[0])
	}
	o := s[0] + p.Char
	if o > 0 && o < len(b.u) && utf16.IsSurrogate(rune(b.u[o])) && b.u[o] >= 0xDC00 && b.u[o-1] >= 0xD800 && b.u[o-1] < 0xDC00 {
		return fmt.Errorf("position %d:%d splits a surrogate pair", p.Line, p.Char)
	}
	return nil
}

func (b *Buffer) ValidateRange(r Range) error {
	if err := b.ValidatePos(r.Start); err != nil {
		return fmt.Errorf("start: %w", err)
	}
	if err := b.ValidatePos(r.End); err != nil {
		return fmt.Errorf("end: %w", err)
	}
	if r.Start.Line > r.End.Line || (r.Start.Line == r.End.Line && r.Start.Char > r.End.Char) {
		return fmt.Errorf("start %d:%d after end %d:%d", r.Start.Line, r.Start.Char, r.End.Line, r.End.Char)
	}
	return nil
}

// Slice returns the text covered by a (valid) range.
func (b *Buffer) Slice(r Range) string {
	s, e := b.OffsetAt(r.Start), b.OffsetAt(r.End)
	if s > e {
		s, e = e, s
	}
	return string(utf16.Decode(b.u[s:e]))
}

// ApplyEdits applies a list of edits that all refer to the original text.
// It returns an error when an edit is malformed or two edits overlap.
func (b *Buffer) ApplyEdits(edits []Edit) (*Buffer, error) {
	type oe struct {
		s, e int
		text string
		idx  int
	}
	var os []oe
	for i, ed := range edits {
		if err := b.ValidateRange(ed.Range); err != nil {
			return nil, fmt.Errorf("edit %d: %w", i, err)
		}
		os = append(os, oe{b.OffsetAt(ed.Range.Start), b.OffsetAt(ed.Range.End), ed.Text, i})
	}
	sort.SliceStable(os, func(i, j int) bool {
		if os[i].s != os[j].s {
			return os[i].s < os[j].s
		}
		return os[i].e < os[j].e
	})
	for i := 1; i < len(os); i++ {
		if os[i].s < os[i-1].e {
			return nil, fmt.Errorf("edits %d and %d overlap", os[i-1].idx, os[i].idx)
		}
	}
	out := make([]uint16, 0, len(b.u))
	prev := 0
	for _, o := range os {
		out = append(out, b.u[prev:o.s]...)
		out = append(out, utf16.Encode([]rune(o.text))...)
		prev = o.e
	}
	out = append(out, b.u[prev:]...)
	return &Buffer{u: out}, nil
}

func U16Len(s string) int { return len(utf16.Encode([]rune(s))) }
