// Package wire talks LSP over stdio to a real hledger-lsp process (built from
// /repo's cmd/hledger-lsp): Content-Length framing, one outstanding request at
// a time, server-to-client requests answered with null.
package wire

import (
	"bufio"
	"encoding/json"
	"fmt"
	"io"
	"os"
	"os/exec"
	"strconv"
	"strings"
	"time"
)

type message struct {
	ID     *json.RawMessage `json:"id,omitempty"`
	Method string           `json:"method,omitempty"`
	Result json.RawMessage  `json:"result,omitempty"`
	Error  *struct {
		Code    int    `json:"code"`
		Message string `json:"message"`
	} `json:"error,omitempty"`
}

type Server struct {
	cmd    *exec.Cmd
	in     io.WriteCloser
	msgs   chan message
	rerr   chan error
	nextID int
	// Notifications counts server notifications by method (publishDiagnostics ...).
	Notifications map[string]int
}

// Start launches the server binary with a scratch HOME and no ledger environment.
func Start(bin, home string) (*Server, error) {
	cmd := exec.Command(bin)
	cmd.Env = []string{"HOME=" + home, "PATH=/nonexistent"}
	cmd.Stderr = io.Discard
	in, err := cmd.StdinPipe()
	if err != nil {
		return nil, err
	}
	out, err := cmd.StdoutPipe()
	if err != nil {
		return nil, err
	}
	if err := cmd.Start(); err != nil {
		return nil, err
	}
	s := &Server{cmd: cmd, in: in, msgs: make(chan message, 64), rerr: make(chan error, 1), Notifications: map[string]int{}}
	go s.read(bufio.NewReader(out))
	return s, nil
}

func (s *Server) read(r *bufio.Reader) {
	for {
		n := -1
		for {
			line, err := r.ReadString('\n')
			if err != nil {
				s.rerr <- err
				return
			}
			line = strings.TrimRight(line, "\r\n")
			if line == "" {
				break
			}
			if v, ok := strings.CutPrefix(strings.ToLower(line), "content-length:"); ok {
				n, _ = strconv.Atoi(strings.TrimSpace(v))
			}
		}
		if n < 0 {
			s.rerr <- fmt.Errorf("message without Content-Length")
			return
		}
		body := make([]byte, n)
		if _, err := io.ReadFull(r, body); err != nil {
			s.rerr <- err
			return
		}
		var m message
		if err := json.Unmarshal(body, &m); err != nil {
			s.rerr <- fmt.Errorf("undecodable message %q: %v", body, err)
			return
		}
		s.msgs <- m
	}
}

func (s *Server) send(v any) error {
	b, err := json.Marshal(v)
	if err != nil {
		return err
	}
	_, err = fmt.Fprintf(s.in, "Content-Length: %d\r\n\r\n%s", len(b), b)
	return err
}

// Notify sends a notification. params may be a json.RawMessage.
func (s *Server) Notify(method string, params any) error {
	return s.send(map[string]any{"jsonrpc": "2.0", "method": method, "params": params})
}

// Call sends a request and waits for its response, answering the server's own
// requests with null meanwhile. The bound only turns a dead server into an error.
func (s *Server) Call(method string, params any) (json.RawMessage, error) {
	s.nextID++
	id := s.nextID
	if err := s.send(map[string]any{"jsonrpc": "2.0", "id": id, "method": method, "params": params}); err != nil {
		return nil, err
	}
	deadline := time.After(60 * time.Second)
	for {
		select {
		case m := <-s.msgs:
			switch {
			case m.Method != "" && m.ID != nil:
				_ = s.send(map[string]any{"jsonrpc": "2.0", "id": m.ID, "result": nil})
			case m.Method != "":
				s.Notifications[m.Method]++
			case m.ID != nil && string(*m.ID) == strconv.Itoa(id):
				if m.Error != nil {
					return nil, fmt.Errorf("error %d: %s", m.Error.Code, m.Error.Message)
				}
				return m.Result, nil
			}
		case err := <-s.rerr:
			return nil, fmt.Errorf("server connection: %v", err)
		case <-deadline:
			return nil, fmt.Errorf("no response to %s within 60 s", method)
		}
	}
}

// Initialize performs the handshake without a workspace root.
func (s *Server) Initialize() error {
	if _, err := s.Call("initialize", map[string]any{"processId": os.Getpid(), "rootUri": nil, "capabilities": map[string]any{}}); err != nil {
		return err
	}
	return s.Notify("initialized", map[string]any{})
}

// Close ends the session and the process.
func (s *Server) Close() {
	_, _ = s.Call("shutdown", nil)
	_ = s.Notify("exit", nil)
	_ = s.in.Close()
	done := make(chan struct{})
	go func() { _ = s.cmd.Wait(); close(done) }()
	select {
	case <-done:
	case <-time.After(5 * time.Second):
		_ = s.cmd.Process.Kill()
		<-done
	}
}
