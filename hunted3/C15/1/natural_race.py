#!/usr/bin/env python3
# Evidence for defect 1 without any hook: the SAME byte stream is written to
# N fresh server processes; the diagnostics the client finally holds for
# a.journal differ from process to process.
#
#   go build -o /tmp/hledger-lsp-bin ./cmd/hledger-lsp
#   python3 natural_race.py /tmp/hledger-lsp-bin 60 2000
#
# third argument: number of filler comment lines in the buffer of b.journal (it
# only makes the didOpen(b) message longer to decode, which moves the race
# window; 0 -> analysis of a always sees b's buffer, 20000 -> never, 2000 ->
# both outcomes on the machine this was written on: {2: 42, 0: 18}).
import json, subprocess, sys, os, tempfile, time, collections
BIN=sys.argv[1]
A="include b.journal\n\naccount assets:cash\n\n2024-01-01 Shop\n    spending:food  10 EUR\n    spending:drink  5 USD\n    assets:cash\n"+ "".join("\n2024-01-%02d Shop %d\n    spending:food  10 EUR\n    spending:drink  5 USD\n    assets:cash  -1 GBP\n"%(1+i%28,i) for i in range(0))
BD="; accounts\n"
BB="; accounts\naccount spending\n"+"; filler line\n"*int(sys.argv[3+0])
def run(d):
    p=subprocess.Popen([BIN],stdin=subprocess.PIPE,stdout=subprocess.PIPE,stderr=subprocess.DEVNULL,bufsize=0)
    def frame(m):
        b=json.dumps(m).encode(); return b"Content-Length: %d\r\n\r\n"%len(b)+b
    def read():
        h=b''
        while not h.endswith(b"\r\n\r\n"):
            c=p.stdout.read(1)
            if not c: return None
            h+=c
        n=int([l for l in h.split(b"\r\n") if l.lower().startswith(b"content-length")][0].split(b":")[1])
        buf=b''
        while len(buf)<n:
            c=p.stdout.read(n-len(buf))
            if not c: return None
            buf+=c
        return json.loads(buf)
    p.stdin.write(frame({"jsonrpc":"2.0","id":1,"method":"initialize","params":{"processId":None,"capabilities":{}}})); p.stdin.flush()
    while True:
        m=read()
        if m.get("id")==1: break
    # the same three messages, written in one go
    p.stdin.write(frame({"jsonrpc":"2.0","method":"initialized","params":{}})+
      frame({"jsonrpc":"2.0","method":"textDocument/didOpen","params":{"textDocument":{"uri":"file://"+d+"/a.journal","languageId":"hledger","version":1,"text":A}}})+
      frame({"jsonrpc":"2.0","method":"textDocument/didOpen","params":{"textDocument":{"uri":"file://"+d+"/b.journal","languageId":"hledger","version":1,"text":BB}}})+
      frame({"jsonrpc":"2.0","id":2,"method":"shutdown","params":None}))
    p.stdin.flush()
    last={}
    got2=False
    import select
    t0=time.time()
    while time.time()-t0<3:
        r,_,_=select.select([p.stdout],[],[],0.5)
        if not r:
            if got2 and len(last)>=2: break
            continue
        m=read()
        if m is None: break
        if m.get("method")=="textDocument/publishDiagnostics":
            last[os.path.basename(m["params"]["uri"])]=sum(1 for x in m["params"]["diagnostics"] if x.get("code")=="UNDECLARED_ACCOUNT")
        if m.get("id")==2: got2=True
    p.kill(); p.wait()
    return last.get("a.journal")
c=collections.Counter()
for i in range(int(sys.argv[2])):
    d=tempfile.mkdtemp()
    open(d+"/a.journal","w").write(A); open(d+"/b.journal","w").write(BD)
    c[run(d)]+=1
print("number of UNDECLARED_ACCOUNT diagnostics finally held for a.journal -> runs:",dict(c))
