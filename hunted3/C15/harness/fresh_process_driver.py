import json, subprocess, sys, os, tempfile, time, select, hashlib
BIN=sys.argv[2] if len(sys.argv)>2 else '/tmp/hledger-lsp-bin'
def files():
    return {
 "main.journal": "commodity EUR\n  format 1.000,00 EUR\naccount assets:cash\ninclude a.journal\ninclude b.journal\ninclude sub/*.journal\n\n2024-01-01 * (c1) Shop | note ; trip: paris, k:v2\n    expenses:food  $10\n    expenses:drink  5 EUR\n    assets:cash  3 \"AB C\"\n    assets:bank  -1 GBP\n\n2024-01-03 Cafe\n    \n",
 "a.journal": "commodity 1,000.00 EUR\naccount assets:bank\n2024-02-01 Shop  ; k:v1\n    expenses:food:a  20 EUR\n    assets:bank\n\n2024-02-02 Cafe\n    expenses:coffee  3 EUR\n    assets:cash  -2 EUR\n    assets:x  1 USD\n",
 "b.journal": "commodity 1000.0 EUR\n2024-03-01 Shop  ; k:v3\n    expenses:food:b  30 GBP\n    assets:bank\n\n2024-03-02 Cafe\n    expenses:tea  4 GBP\n    assets:bank\n",
 "sub/one.journal": "2024-04-01 Shop ; k:v4\n    expenses:food:one  1 CHF\n    assets:one\n2024-04-01 Cafe\n    expenses:one  1 CHF\n    assets:one\n",
 "sub/two.journal": "2024-04-01 Shop ; k:v5\n    expenses:food:two  2 CHF\n    assets:two\n2024-04-01 Cafe\n    expenses:two  1 CHF\n    assets:two\n",
 }
def run(d):
    env=dict(os.environ); env.pop('LEDGER_FILE',None); env.pop('HLEDGER_JOURNAL',None)
    p=subprocess.Popen([BIN],stdin=subprocess.PIPE,stdout=subprocess.PIPE,stderr=subprocess.DEVNULL,env=env)
    def send(m):
        b=json.dumps(m).encode()
        p.stdin.write(b"Content-Length: %d\r\n\r\n"%len(b)+b); p.stdin.flush()
    def read():
        h=b''
        while not h.endswith(b"\r\n\r\n"):
            c=p.stdout.read(1)
            if not c: return None
            h+=c
        n=int([l for l in h.split(b"\r\n") if l.lower().startswith(b"content-length")][0].split(b":")[1])
        return json.loads(p.stdout.read(n))
    rid=[0]; out={}
    def req(method,params,key=None):
        rid[0]+=1; send({"jsonrpc":"2.0","id":rid[0],"method":method,"params":params})
        while True:
            m=read()
            if m is None: raise Exception("eof")
            if m.get("id")==rid[0] and "method" not in m:
                if key: out[key]=json.dumps(m.get("result"),sort_keys=False)
                return m
            if m.get("method")=="textDocument/publishDiagnostics":
                out["diag:"+m["params"]["uri"]]=json.dumps(m["params"]["diagnostics"])
            elif "id" in m and "method" in m:
                send({"jsonrpc":"2.0","id":m["id"],"result":[None]})
    def note(method,params): send({"jsonrpc":"2.0","method":method,"params":params})
    req("initialize",{"processId":None,"rootUri":"file://"+d,"capabilities":{}})
    note("initialized",{})
    fs=files()
    for n in ["main.journal","a.journal","sub/two.journal"]:
        note("textDocument/didOpen",{"textDocument":{"uri":"file://"+d+"/"+n,"languageId":"hledger","version":1,"text":fs[n]}})
    u="file://"+d+"/main.journal"
    for (l,c) in [(14,4),(8,4),(8,20),(9,23),(7,22),(7,45)]:
        for m in ["completion","references","definition","hover","rename"]:
            prm={"textDocument":{"uri":u},"position":{"line":l,"character":c}}
            if m=="references": prm["context"]={"includeDeclaration":True}
            if m=="rename": prm["newName"]="zz"
            req("textDocument/"+m,prm,"%s:%d:%d"%(m,l,c))
        req("textDocument/inlineCompletion",{"textDocument":{"uri":u},"position":{"line":l,"character":c},"context":{"triggerKind":1}},"inline:%d:%d"%(l,c))
    req("workspace/symbol",{"query":""},"wsym")
    req("textDocument/formatting",{"textDocument":{"uri":u},"options":{"tabSize":4,"insertSpaces":True}},"fmt")
    time.sleep(0.3)
    req("shutdown",None)
    note("exit",None)
    p.kill(); p.wait()
    return {k.replace(d,"$D"):v.replace(d,"$D") for k,v in out.items()}
base=None
for i in range(int(sys.argv[1])):
    d=tempfile.mkdtemp()
    for n,c in files().items():
        os.makedirs(os.path.dirname(os.path.join(d,n)),exist_ok=True)
        open(os.path.join(d,n),"w").write(c)
    o=run(d)
    if base is None:
        base=o; print(len(o),"keys"); 
        for k in sorted(o):
            if k.startswith("diag") or k.startswith("rename:8:4") or k.startswith("inline:14"): print(k,o[k][:300])
    else:
        for k in set(base)|set(o):
            if base.get(k)!=o.get(k): print("DIFF run",i,k,"\n ",base.get(k,"")[:400],"\n ",o.get(k,"")[:400])
print("done")
