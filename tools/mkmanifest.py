#!/usr/bin/env python3
"""Regenerates /verif/MANIFEST.json from the table below (claimed checks) and properties.jsonl."""
import json, os, subprocess
V = os.path.dirname(os.path.dirname(os.path.abspath(__file__)))
props = [json.loads(l) for l in open(os.path.join(V, "properties.jsonl"))]

CLAIMED = {
 "C18": dict(
  technique="rapid-generated multi-file workspaces from the model; published warnings compared with declarations/uses known by construction; metamorphic switch law over the 8 settings combinations",
  text="Workspaces of 1..3 journals are generated with account/commodity directives placed in the current file, an included file, a workspace sibling or nowhere, and accounts in the classes declared / child of declared / near-miss sibling / standard category (any case) / unrelated. After didOpen the UNDECLARED_ACCOUNT warnings must sit on exactly the postings of the current file whose account is not covered, and per transaction each undeclared non-empty commodity of amounts, costs and assertions must be warned exactly once; none when nothing is declared in scope. For each of the 7 other combinations of the three diagnostics switches (nested, wrapped and dotted payload encodings) the diagnostics must equal the all-on diagnostics minus exactly the switched-off kinds.",
  note="Declarations in scope = current file, its include tree and, with a root, the root journal's tree. D, P and Y directives are not generated (whether D declares a commodity is not fixed by the property)."),
 "C20": dict(
  technique="rapid-generated multi-file workspaces from the model with exact quantities; hover markdown parsed back and compared as rationals/counts with aggregates computed from the model",
  text="Workspaces of 1..4 journals with amounts of up to 12 decimals in every supported notation are written to disk; hover is requested on every posting account, payee/description, tag name, tag value and amount of the requesting file (root or included file, with and without workspace root). Per-commodity balances are parsed from the markdown and compared, as math/big rationals, with the exact sums of the amounts explicitly posted to that account over the files in scope; posting, transaction and tag usage counts and the amount/cost shown for an amount hover are compared with the model.",
  note="'Number of such postings' is accepted in both readings (all postings of the account, or those with an explicit amount). Tags in account-directive comments and top-level comments are not generated (whether they are 'uses' is not fixed by the property). Scope as in C09."),
 "C09": dict(
  technique="rapid-generated multi-file workspaces rendered from the model; references compared as sets with the renderer's occurrence table; rename judged by applying the WorkspaceEdit with a reference edit applier and comparing whole file texts",
  text="Workspaces of 1..4 journals (shared name pools, include graph with diamonds and unreachable siblings) are written to disk; the server runs with or without a workspace root and the request comes from the root or an included file, optionally with an unsaved edit in the requesting buffer. For every posting account, posting commodity and payee under the cursor the returned locations must be exactly the occurrences in scope (postings, costs, assertions, P/D/commodity/account directives; declarations present iff asked), each attributed to the file that contains it, without duplicates. Rename edits are applied to every file text; the result must equal the texts with exactly the occurrence spans replaced by the new name.",
  note="Scope = include tree of the requesting file without a root, the root journal's tree with one; requests come from files inside that tree. Only the requesting file carries unsaved edits. The D directive's symbol may count as declaration or use. Open finding C09-F3 (symbol inside a 'format' subdirective) is excluded from the main campaign by not generating that directive form."),
 "C08": dict(
  technique="rapid-generated journals from the model; every cursor position probed; reflective walker validates every Position/Range/Location/TextEdit/FoldingRange against a UTF-16 reference buffer; renderer spans decide 'on target'",
  text="Journals rich in non-ASCII/non-BMP text are rendered from the model with every lexeme span recorded. All position-carrying features (diagnostics, hover, definition, references, prepareRename, rename, completion and inline-completion edits at every cursor column; document and workspace symbols, links, folds) are requested and every position-bearing field, found reflectively, must lie inside the document with start<=end, in UTF-16 units, never inside a surrogate pair. Hover / prepareRename / references / rename / workspace-symbol / link / undeclared-commodity ranges must equal the span of the lexeme concerned; folds and outline symbols must be pairwise disjoint or nested and a transaction's fold must end inside its own entry.",
  note="Single document without workspace root (cross-file attribution is C09's concern). At a boundary between two lexemes either may be reported. UNDECLARED_ACCOUNT may cover the account or its whole posting. Cursor positions inside surrogate pairs are not sent."),
 "C17": dict(
  technique="rapid-generated documents (model-rendered journals and token soup) with decoded-array validity and lexeme-span oracles; rapid state-machine histories with a client model applying semantic-token delta edits",
  text="For every generated document the relative token array is decoded and validated against the text (document order, no overlap, inside the line in UTF-16 units, no split surrogate pair, non-empty, type and modifier bits inside the advertised legend); for journals rendered from the model every account / commodity / payee / date / amount / tag / tag value / directive / code / status / comment / operator token must start at and have the length of a renderer lexeme of that kind (code with parentheses, quoted commodity with quotes). Range answers must be an ordered subset of the full answer that contains every token inside the range and none from lines outside it. Histories of edits, full, delta (current, stale, unknown, empty, foreign previousResultId), close and re-open on 1..3 documents sharing a server are replayed against a client model that keeps every result by id and applies the returned edits; the rebuilt array must equal the full result for the current text.",
  note="Tokens of type 'string' (notes, subdirective text, include paths) are only validated structurally. A tag token may include its colon. Which lexemes get a token at all is not prescribed, only that an emitted token covers exactly one lexeme of its kind. The full result used as delta reference is obtained by a range request over all lines, which does not touch the server's delta cache."),
 "C02": dict(
  technique="model-based generation of balanced/unbalanced transactions with rapid; published verdicts compared with the exact balance rule in rational arithmetic",
  text="Transactions are constructed in the model with known exact sums (free postings of the three kinds with unit/total costs in every number notation, then completed to balanced-by-cancelling, balanced-by-one-amountless, unbalanced by a chosen exact residual in one commodity, or several amountless postings). The document goes through didOpen; per transaction UNBALANCED / MULTIPLE_INFERRED must be present exactly when the rule of the property says so (math/big rationals over the model), never both, and the per-commodity differences parsed from the message must equal the true absolute residuals as a set.",
  note="Restricted, as the quantifier says, to transactions where hledger's rule and the exact-sum rule agree: residuals sit in exactly one commodity (no price inference) and are written with their own precision; zero quantities with costs are not generated. The order of commodities in the message is C15's concern."),
 "C03": dict(
  technique="model-based generation from grammar G with rapid; parse result compared field by field with the model the text was rendered from",
  text="Journals are generated as structures (transactions, postings, exact quantities, directives) and rendered to text with generated spellings (date separators, description classes, number notations, sign and commodity placement, spacing, LF/CRLF). parser.Parse must report no error, the server must publish no diagnostic without a code, and every field of the extracted tree (dates, status, code, description/payee/note, accounts, exact quantities, commodities and side, costs, assertions, comments, tags, directive payloads with formats compared semantically, include paths, counts) must equal the model.",
  note="The oracle for 'supported' is grammar G of DESIGN.md 4.2 (intersection of the property text, docs/hledger.md and ast/types.go); numbers with one mark and exactly three following digits are not generated (project and hledger disagree). The expected tree is known by construction, not by another parser."),
 "C13": dict(
  technique="enumerated and rapid-sampled schedules: permuted start order of background analyses (verif hook) and permuted release order of parked PublishDiagnostics calls, final publication compared with a fresh server",
  text="The harness owns the schedule at the two points that decide which publication is last: each background analysis is held at the diag.start hook and run to completion in a chosen order, or all PublishDiagnostics calls are parked in the client stub and released in a chosen order. For bursts of 2..4 changes (one or two documents, full and ranged changes, versions with pairwise different diagnostics) every permutation is enumerated in both modes; bursts of 5 are sampled by rapid. After the burst and quiescence the last publication per document must equal what a fresh server publishes for the final text.",
  note="Orders that differ only inside one analysis are not distinguished (they cannot change which publication is last). When a server serialises publications the requested release order cannot be forced; the realised order is recorded and any realised order must still converge. Bounded waits only steer the schedule, never a verdict."),
 "C01": dict(
  technique="rapid state-machine histories of document notifications against a UTF-16 reference client buffer; differential against a fresh server for feature answers",
  text="Generated histories (2..12 didOpen / didChange with 1..4 ranged or range-less changes / didClose / re-open on 1..3 documents; ASCII, BMP, non-BMP, LF, CRLF, empty documents; positions past line and document end; insertions creating and deleting line breaks) are serialised as a conforming client would, decoded with the protocol library's JSON decoder and passed to the server; after every notification the text the server holds must equal an independent UTF-16 reference buffer. With the verif hook holding the background analysis, one feature request issued right after the notification must equal the answer of a fresh server opened on the reference text.",
  note="In-process at the Server API (main.go is a pass-through); the decoder step reproduces the one place where decoding matters (range-less vs 0:0-0:0). Lone CR line ends and positions inside surrogate pairs are not generated (a conforming client cannot send them). Open finding C01-F1 (ranged insertion at 0:0) is excluded from the main campaign by construction and replayed separately."),
 "C10": dict(
  technique="exhaustive enumeration of include graphs on <=4 files + rapid-generated graphs (globs, dangling, limits), judged by an independent reference DFS resolver",
  text="Generated-input search: every directed include graph on up to 3 files (quick) / 4 files in two directive orders (thorough) is written to disk and loaded through Loader.Load and LoadFromContent; rapid adds graphs on up to 5 files with glob / absolute / home-relative / dangling directives, depth limits 1..5 and one oversized file. The loaded set, each-once, and the exact set of (directive, verdict) pairs are compared with a reference resolver written from the property (ancestor stack + loaded set). Exhaustive only for the named finite graph space; exploration beyond it.",
  note="Assumes includes are followed depth-first in textual order (the reading the property's 'currently being included' implies). Cases where a depth limit interacts with multi-path reachability are judged by the order-independent clauses only (counted as excluded_ambiguous_depth). Whether a glob matching nothing is an error is not asserted."),
 "C11": dict(
  technique="rapid state-machine sequences on one shared Loader, differential against a fresh Loader after every load",
  text="Generated histories (load / load-from-content with any file as root, edit+InvalidateFile, ClearCache; 2..6 steps, 2..5 files incl. deep chains, globs, dangling targets and files with syntax errors) run on one shared Loader; after each load the file set, order, every per-file tree (deep equality), the primary tree and the error multiset must equal those of a fresh Loader reading the current files.",
  note="The oracle is the same loader code without history, so it detects history dependence only (C10 judges the history-free result). Limits are not varied between loads."),
}

def main():
    hooks_commits = []
    m = {"version": 1,
         "setup_cmd": "cd /verif/harness && GOFLAGS=-mod=mod GOPROXY=off GOSUMDB=off GOTOOLCHAIN=local go1.26.8 test -c -vet=off -tags verif -o /dev/null ./checks",
         "hooks": {"guard": "verif", "enable": "go test -tags verif (the harness always builds /repo with -tags verif)",
                   "baseline_off_cmd": "cd /repo && go test -vet=off -count=1 ./...", "source_commits": hooks_commits, "add_only": True},
         "engines": [{"name": "rapid-harness", "path": "/verif/harness", "serves_properties": sorted(CLAIMED),
                      "kind_free_text": "Go test binary built from /repo's working tree (module replace); pgregory.net/rapid v1.3.0 generators, enumerating generators and native go fuzzing against explicit oracles; python3 driver ./check builds, shards, merges evidence and classifies findings"}],
         "checks": [], "not_applicable": [],
         "notes": "See DESIGN.md. known_findings.json lists genuine defects (fixed with 'fix:' commits in /repo, or open)."}
    for p in props:
        i = p["id"]
        if i in CLAIMED:
            c = CLAIMED[i]
            m["checks"].append({
                "property_id": i, "quick_cmd": "./check %s --tier quick" % i, "thorough_cmd": "./check %s --tier thorough" % i,
                "evidence_file": "/verif/evidence/%s.json" % i, "replay_cmd_template": "./check %s --replay {path}" % i,
                "engine": "rapid-harness",
                "level_claimed": {"category": "exploration", "text": c["text"], "design_ref": "DESIGN.md section 5.%d" % int(i[1:])},
                "level_note": c["note"], "technique": c["technique"]})
        else:
            m["not_applicable"].append({"property_id": i, "reason": "check not built yet (construction in progress, DESIGN.md section 10); property-based testing applies and the check is planned"})
    json.dump(m, open(os.path.join(V, "MANIFEST.json"), "w"), indent=1)

main()
