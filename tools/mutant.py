#!/usr/bin/env python3
"""Sensitivity helper: apply one textual mutation to a scratch worktree of /repo and run checks against it.
usage: mutant.py --checks C02,C03 --file internal/analyzer/balance.go --old 'a' --new 'b' [--count 1] [--test]
"""
import argparse, os, subprocess, sys, tempfile, shutil
ap = argparse.ArgumentParser()
ap.add_argument("--checks", required=True)
ap.add_argument("--file", required=True)
ap.add_argument("--old", required=True)
ap.add_argument("--new", required=True)
ap.add_argument("--test", action="store_true", help="also run the repository's own tests on the mutant")
ap.add_argument("--tier", default="quick")
a = ap.parse_args()
wt = tempfile.mkdtemp(prefix="mut-", dir="/tmp")
os.rmdir(wt)
subprocess.check_call(["git", "-C", "/repo", "worktree", "add", "-q", "--detach", wt, "HEAD"])
try:
    p = os.path.join(wt, a.file)
    s = open(p).read()
    if a.old not in s:
        print("MUTATION DOES NOT APPLY"); sys.exit(3)
    open(p, "w").write(s.replace(a.old, a.new, 1))
    env = dict(os.environ, GOFLAGS="-mod=mod")
    r = subprocess.run(["go", "build", "./..."], cwd=wt, env=env, capture_output=True, text=True)
    if r.returncode != 0:
        print("MUTANT DOES NOT COMPILE\n", r.stderr[-1500:]); sys.exit(3)
    if a.test:
        r = subprocess.run(["go", "test", "-vet=off", "-count=1", "./..."], cwd=wt, env=env, capture_output=True, text=True)
        print("repo tests:", "PASS" if r.returncode == 0 else "FAIL")
        if r.returncode != 0:
            print("\n".join(l for l in r.stdout.splitlines() if "FAIL" in l or "---" in l)[:1500])
    for c in a.checks.split(","):
        e = dict(os.environ, VERIF_REPO=wt)
        r = subprocess.run(["/verif/check", c, "--tier", a.tier], env=e, capture_output=True, text=True)
        out = r.stdout.strip().splitlines()
        print("== %s exit=%d" % (c, r.returncode))
        for l in out[-6:]:
            print("   ", l[:400])
finally:
    subprocess.call(["git", "-C", "/repo", "worktree", "remove", "--force", wt])
