#!/usr/bin/env python3
"""Sensitivity helper: revert fix commits in a scratch worktree of /repo and run checks there.
usage: revert.py --checks C08 --commits 26f3343[,..]"""
import argparse, os, subprocess, sys, tempfile
ap = argparse.ArgumentParser()
ap.add_argument("--checks", required=True)
ap.add_argument("--commits", required=True)
a = ap.parse_args()
wt = tempfile.mkdtemp(prefix="rev-", dir="/tmp"); os.rmdir(wt)
subprocess.check_call(["git", "-C", "/repo", "worktree", "add", "-q", "--detach", wt, "HEAD"])
try:
    for c in a.commits.split(","):
        r = subprocess.run(["git", "-C", wt, "revert", "--no-commit", c], capture_output=True, text=True)
        if r.returncode != 0:
            print("REVERT FAILED", c, r.stderr[-500:]); sys.exit(3)
    for c in a.checks.split(","):
        r = subprocess.run(["/verif/check", c], env=dict(os.environ, VERIF_REPO=wt), capture_output=True, text=True)
        print("== %s exit=%d" % (c, r.returncode))
        for l in r.stdout.strip().splitlines()[-8:]:
            print("   ", l[:300])
finally:
    subprocess.call(["git", "-C", "/repo", "worktree", "remove", "--force", wt])
