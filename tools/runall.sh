#!/bin/bash
# run every registered check at the given tier (default quick), several at a time
tier=${1:-quick}
cd /verif
ids=$(python3 -c "import json;print(' '.join(c['property_id'] for c in json.load(open('MANIFEST.json'))['checks']))")
for id in $ids; do
  ( out=$(./check $id --tier $tier 2>&1); echo "[$id exit=$?] $(echo "$out" | tail -n 3 | cut -c1-300)" ) &
  while [ $(jobs -r | wc -l) -ge ${PAR:-4} ]; do sleep 0.2; done
done
wait
