#!/bin/bash
# re-evaluate every kept seeded change against /repo's HEAD with the current checks (quick tier)
cd /verif
for d in seeded/*/; do
  n=$(basename $d); p=${n%%-*}
  [ -f $d/patch.diff ] || continue
  out=$(python3 tools/seedrun.py --src /verif/$d --property $p --name $n --checks $p --keep 2>&1 | tail -2 | tr '\n' ' ' | cut -c1-260)
  echo "$n: $out"
done
