#!/usr/bin/env python3
"""Validate a seeded breaking change and run checks against it.

usage: seedrun.py --src /tmp/seed-C07/_seed/A --property C07 --name C07-A [--demo-dir internal/parser] [--demo-flags "-tags verif"]
                  [--checks C07,C03] [--tier quick] [--keep]

Steps (all in a scratch worktree of /repo's HEAD under /tmp, removed afterwards):
  1. the demonstration passes on the unchanged tree;
  2. patch.diff applies; the project builds; the existing test suite passes;
  3. the demonstration fails with the change;
  4. the listed checks are run against the changed tree (VERIF_REPO) and their verdicts recorded.
With --keep the change is copied to /verif/seeded/<name>/ (patch.diff, demo, notes.md, meta.json).
"""
import argparse, glob, json, os, shutil, subprocess, sys, tempfile, time

ap = argparse.ArgumentParser()
ap.add_argument("--src", required=True)
ap.add_argument("--property", required=True)
ap.add_argument("--name", required=True)
ap.add_argument("--demo-dir", default="")
ap.add_argument("--demo-flags", default="")
ap.add_argument("--checks", default="")
ap.add_argument("--tier", default="quick")
ap.add_argument("--keep", action="store_true")
ap.add_argument("--needs", default="")
a = ap.parse_args()

ENV = dict(os.environ, GOFLAGS="-mod=mod")
def sh(cmd, cwd, env=ENV, timeout=1800):
    p = subprocess.run(cmd, cwd=cwd, env=env, shell=isinstance(cmd, str), stdout=subprocess.PIPE, stderr=subprocess.STDOUT, text=True, timeout=timeout)
    return p.returncode, p.stdout

wt = tempfile.mkdtemp(prefix="seedrun-", dir="/tmp"); os.rmdir(wt)
subprocess.check_call(["git", "-C", "/repo", "worktree", "add", "-q", "--detach", wt, "HEAD"])
meta = {"name": a.name, "property": a.property, "repo_head": subprocess.check_output(["git", "-C", "/repo", "rev-parse", "--short", "HEAD"], text=True).strip(),
        "needs": a.needs, "ran": [], "checks": {}}
ok = True
try:
    patch = os.path.join(a.src, "patch.diff")
    demos = [f for f in glob.glob(os.path.join(a.src, "*")) if f.endswith("_test.go") or f.endswith("_test.go.txt") or (f.endswith(".go") and "demo" in os.path.basename(f))]
    demo_dir = a.demo_dir
    old_meta = {}
    if os.path.exists(os.path.join(a.src, "meta.json")):
        old_meta = json.load(open(os.path.join(a.src, "meta.json")))
        demo_dir = demo_dir or old_meta.get("demo_dir", "")
        a.demo_flags = a.demo_flags or old_meta.get("demo_flags", "")
        a.needs = a.needs or old_meta.get("needs", "")
        meta["needs"] = a.needs
        for k in ("superseded", "valid_on_head"):
            if k in old_meta:
                meta[k] = old_meta[k]
    if not demo_dir:
        notes = open(os.path.join(a.src, "notes.md")).read() if os.path.exists(os.path.join(a.src, "notes.md")) else ""
        for cand in ["internal/server", "internal/parser", "internal/include", "internal/workspace", "internal/formatter", "internal/analyzer", "internal/lsputil"]:
            if cand in notes:
                demo_dir = cand
                break
    def run_demo(label):
        if not demos or not demo_dir:
            return None, "no demonstration test found"
        copied = []
        for d in demos:
            bn = os.path.basename(d)
            if bn.endswith(".txt"):
                bn = bn[:-4]
            dst = os.path.join(wt, demo_dir, "zz_seed_" + bn)
            shutil.copy(d, dst); copied.append(dst)
        rc, out = sh("go test -count=1 %s -run 'Demo|Seed|demo|seed|.' ./%s/ 2>&1 | tail -40" % (a.demo_flags, demo_dir), wt)
        # determine pass/fail from go test output
        failed = ("FAIL" in out) or ("panic:" in out)
        for cpy in copied:
            os.remove(cpy)
        meta["ran"].append("%s: go test %s ./%s -> %s" % (label, a.demo_flags, demo_dir, "FAIL" if failed else "ok"))
        return failed, out
    failed0, out0 = run_demo("demo on unchanged tree")
    if failed0:
        print("DEMO FAILS ON THE UNCHANGED TREE\n" + out0[-2000:]); ok = False
    rc, out = sh(["git", "apply", "--whitespace=nowarn", patch], wt)
    ported = False
    if rc != 0:
        rc, out = sh(["git", "apply", "--3way", "--whitespace=nowarn", patch], wt)
        if rc != 0 and "with conflicts" in out:
            # /repo has moved on since the change was written: keep the change's side of every conflict
            # (validity is re-established below: build, suite, demonstration)
            import re
            rc2, files = sh("git diff --name-only --diff-filter=U", wt)
            conflicted = {f: open(os.path.join(wt, f)).read() for f in files.split()}
            sh("git reset -q", wt)
            outb = ""
            for how, pick in (("both sides kept", lambda m: m.group(1) + m.group(2)), ("in favour of the change", lambda m: m.group(2))):
                for f, txt in conflicted.items():
                    open(os.path.join(wt, f), "w").write(re.sub(r"<<<<<<< ours\n(.*?)=======\n(.*?)>>>>>>> theirs\n", pick, txt, flags=re.S))
                rcb, outb = sh("go build ./... 2>&1 | tail -5", wt)
                if not [l for l in outb.splitlines() if ".go:" in l]:
                    rc, ported = 0, True
                    meta["ran"].append("patch ported to HEAD: conflicts resolved, " + how)
                    break
            if not ported:
                rc, out = 1, out + "\n" + outb
    if rc != 0:
        print("PATCH DOES NOT APPLY\n" + out[-1500:]); ok = False
    else:
        meta["ran"].append("git apply patch.diff -> ok")
        rc, out = sh("go build ./... 2>&1 | tail -20", wt)
        if "error" in out.lower() or out.strip():
            if rc != 0 or out.strip():
                print("BUILD OUTPUT:\n" + out[-1500:])
        rc, out = sh("go test -vet=off -count=1 ./... 2>&1 | tail -30", wt)
        suite_ok = "FAIL" not in out
        meta["ran"].append("go test ./... with the change -> %s" % ("ok" if suite_ok else "FAIL"))
        if not suite_ok:
            print("EXISTING SUITE FAILS WITH THE CHANGE\n" + out[-2000:]); ok = False
        failed1, out1 = run_demo("demo with the change")
        if failed1 is False:
            print("DEMO DOES NOT FAIL WITH THE CHANGE\n" + out1[-1500:]); ok = False
        elif failed1 is None:
            print("NO DEMO:", out1)
        for c in [x for x in a.checks.split(",") if x]:
            t0 = time.time()
            p = subprocess.run(["/verif/check", c, "--tier", a.tier], env=dict(os.environ, VERIF_REPO=wt), stdout=subprocess.PIPE, stderr=subprocess.STDOUT, text=True)
            lines = [l for l in p.stdout.strip().splitlines() if not l.startswith("KNOWN-FINDING")]
            viol = [l for l in lines if l.startswith("VIOLATION")]
            detail = ""
            for i, l in enumerate(lines):
                if l.startswith("VIOLATION") and i + 1 < len(lines):
                    detail = lines[i + 1].strip()[:300]
                    break
            meta["checks"][c] = {"tier": a.tier, "exit": p.returncode, "violations": len(viol), "first": detail, "seconds": round(time.time() - t0, 1)}
            print("== %s %s exit=%d violations=%d  %s" % (c, a.tier, p.returncode, len(viol), detail[:200]))
    meta["valid"] = ok
    if a.keep and ok:
        dst = os.path.join("/verif/seeded", a.name)
        os.makedirs(dst, exist_ok=True)
        if ported:
            if not os.path.exists(os.path.join(dst, "patch.orig.diff")) and os.path.exists(os.path.join(dst, "patch.diff")):
                shutil.copy(os.path.join(dst, "patch.diff"), os.path.join(dst, "patch.orig.diff"))
            rcp, newpatch = sh("git diff", wt)
            open(os.path.join(dst, "patch.diff"), "w").write(newpatch)
        elif os.path.abspath(dst) != os.path.abspath(a.src):
            shutil.copy(patch, os.path.join(dst, "patch.diff"))
            for d in demos:
                bn = os.path.basename(d)
                shutil.copy(d, os.path.join(dst, bn if bn.endswith(".txt") else bn + ".txt"))  # .txt: not compiled by anything under /verif
            if os.path.exists(os.path.join(a.src, "notes.md")):
                shutil.copy(os.path.join(a.src, "notes.md"), os.path.join(dst, "notes.md"))
        meta["demo_dir"] = demo_dir
        meta["demo_flags"] = a.demo_flags
        json.dump(meta, open(os.path.join(dst, "meta.json"), "w"), indent=1)
finally:
    subprocess.call(["git", "-C", "/repo", "worktree", "remove", "--force", wt])
print("VALID" if ok else "INVALID")
