#!/usr/bin/env python3
"""Write /verif/seeded/RESULTS.md from the meta.json of every kept seeded change."""
import json, glob
rows = []
for p in sorted(glob.glob('/verif/seeded/*/meta.json')):
    m = json.load(open(p)); n = m['name']
    if m.get('valid_on_head') is False:
        why = m.get('na_reason') or ('stale (code it changes was rewritten)' if m.get('stale') else 'superseded (a later repair made the change harmless)')
        rows.append((n, m.get('repo_head', '?'), 'not applicable to HEAD', why)); continue
    c = m['checks'].get(m['property'], {})
    verdict = 'caught' if c.get('exit') == 1 else 'MISSED'
    if verdict == 'MISSED':
        # the change was written against one property, but what it breaks is another property's subject
        for other, oc in sorted(m['checks'].items()):
            if oc.get('exit') == 1:
                verdict, c = 'caught by ' + other, oc
                break
    rows.append((n, m.get('repo_head', '?'), verdict, c.get('first', '')[:110].replace('|', '\\|')))
with open('/verif/seeded/RESULTS.md', 'w') as f:
    f.write("# Seeded changes: verdict of the property's quick check (tools/seedall.sh)\n\n")
    f.write("%d changes kept; %d caught, %d missed, %d not applicable to /repo's HEAD.\n\n" % (len(rows), sum(r[2].startswith('caught') for r in rows), sum(r[2] == 'MISSED' for r in rows), sum(r[2].startswith('not') for r in rows)))
    f.write("| Change | evaluated at /repo | verdict | first discrepancy / note |\n|---|---|---|---|\n")
    for r in rows:
        f.write("| %s | %s | %s | %s |\n" % r)
print(open('/verif/seeded/RESULTS.md').read()[:400])
